//! C12 — Rust values survive the trip through `Value` unchanged.
//!
//! Oracle: bitwise identity of the typed Rust value before / after the trip
//! (`to_bits` for floats, component-wise for date/decimal types), an independent
//! hand-written table "Rust type -> Value variant (-> ArrayType)", and an
//! exhaustive (source, target type) extraction matrix.

use sea_query::value::with_array::NotU8;
use sea_query::{ArrayType, FromValueTuple, IntoValueTuple, Nullable, Value, ValueTuple, ValueType};
use serde_json::{json, Value as J};
use std::borrow::Cow;
use std::mem::discriminant;
use vcore::prng::{hash_bytes, hash_str, mix, splitmix, Rng};
use vcore::report::Report;
use vcore::run::{guard, panic_sig, Ctx};

use chrono::{Datelike, Offset, TimeZone, Timelike};

// ---------------------------------------------------------------------------
// Independent view of a `Value`: variant name, ArrayType name, NULL-ness,
// canonical bit-level encoding. All matches are exhaustive on purpose: a new
// variant in sea-query stops the build here instead of silently escaping.
// ---------------------------------------------------------------------------

pub(crate) fn variant_name(v: &Value) -> &'static str {
    match v {
        Value::Bool(_) => "Bool",
        Value::TinyInt(_) => "TinyInt",
        Value::SmallInt(_) => "SmallInt",
        Value::Int(_) => "Int",
        Value::BigInt(_) => "BigInt",
        Value::TinyUnsigned(_) => "TinyUnsigned",
        Value::SmallUnsigned(_) => "SmallUnsigned",
        Value::Unsigned(_) => "Unsigned",
        Value::BigUnsigned(_) => "BigUnsigned",
        Value::Float(_) => "Float",
        Value::Double(_) => "Double",
        Value::String(_) => "String",
        Value::Char(_) => "Char",
        Value::Bytes(_) => "Bytes",
        Value::Json(_) => "Json",
        Value::ChronoDate(_) => "ChronoDate",
        Value::ChronoTime(_) => "ChronoTime",
        Value::ChronoDateTime(_) => "ChronoDateTime",
        Value::ChronoDateTimeUtc(_) => "ChronoDateTimeUtc",
        Value::ChronoDateTimeLocal(_) => "ChronoDateTimeLocal",
        Value::ChronoDateTimeWithTimeZone(_) => "ChronoDateTimeWithTimeZone",
        Value::TimeDate(_) => "TimeDate",
        Value::TimeTime(_) => "TimeTime",
        Value::TimeDateTime(_) => "TimeDateTime",
        Value::TimeDateTimeWithTimeZone(_) => "TimeDateTimeWithTimeZone",
        Value::Uuid(_) => "Uuid",
        Value::Decimal(_) => "Decimal",
        Value::BigDecimal(_) => "BigDecimal",
        Value::Array(_, _) => "Array",
        Value::Vector(_) => "Vector",
        Value::IpNetwork(_) => "IpNetwork",
        Value::MacAddress(_) => "MacAddress",
    }
}

pub(crate) const ALL_VARIANTS: [&str; 32] = [
    "Bool", "TinyInt", "SmallInt", "Int", "BigInt", "TinyUnsigned", "SmallUnsigned", "Unsigned", "BigUnsigned",
    "Float", "Double", "String", "Char", "Bytes", "Json", "ChronoDate", "ChronoTime", "ChronoDateTime",
    "ChronoDateTimeUtc", "ChronoDateTimeLocal", "ChronoDateTimeWithTimeZone", "TimeDate", "TimeTime",
    "TimeDateTime", "TimeDateTimeWithTimeZone", "Uuid", "Decimal", "BigDecimal", "Array", "Vector", "IpNetwork",
    "MacAddress",
];

pub(crate) fn array_name(t: &ArrayType) -> &'static str {
    match t {
        ArrayType::Bool => "Bool",
        ArrayType::TinyInt => "TinyInt",
        ArrayType::SmallInt => "SmallInt",
        ArrayType::Int => "Int",
        ArrayType::BigInt => "BigInt",
        ArrayType::TinyUnsigned => "TinyUnsigned",
        ArrayType::SmallUnsigned => "SmallUnsigned",
        ArrayType::Unsigned => "Unsigned",
        ArrayType::BigUnsigned => "BigUnsigned",
        ArrayType::Float => "Float",
        ArrayType::Double => "Double",
        ArrayType::String => "String",
        ArrayType::Char => "Char",
        ArrayType::Bytes => "Bytes",
        ArrayType::Json => "Json",
        ArrayType::ChronoDate => "ChronoDate",
        ArrayType::ChronoTime => "ChronoTime",
        ArrayType::ChronoDateTime => "ChronoDateTime",
        ArrayType::ChronoDateTimeUtc => "ChronoDateTimeUtc",
        ArrayType::ChronoDateTimeLocal => "ChronoDateTimeLocal",
        ArrayType::ChronoDateTimeWithTimeZone => "ChronoDateTimeWithTimeZone",
        ArrayType::TimeDate => "TimeDate",
        ArrayType::TimeTime => "TimeTime",
        ArrayType::TimeDateTime => "TimeDateTime",
        ArrayType::TimeDateTimeWithTimeZone => "TimeDateTimeWithTimeZone",
        ArrayType::Uuid => "Uuid",
        ArrayType::Decimal => "Decimal",
        ArrayType::BigDecimal => "BigDecimal",
        ArrayType::IpNetwork => "IpNetwork",
        ArrayType::MacAddress => "MacAddress",
    }
}

pub(crate) fn all_array_types() -> Vec<ArrayType> {
    vec![
        ArrayType::Bool,
        ArrayType::TinyInt,
        ArrayType::SmallInt,
        ArrayType::Int,
        ArrayType::BigInt,
        ArrayType::TinyUnsigned,
        ArrayType::SmallUnsigned,
        ArrayType::Unsigned,
        ArrayType::BigUnsigned,
        ArrayType::Float,
        ArrayType::Double,
        ArrayType::String,
        ArrayType::Char,
        ArrayType::Bytes,
        ArrayType::Json,
        ArrayType::ChronoDate,
        ArrayType::ChronoTime,
        ArrayType::ChronoDateTime,
        ArrayType::ChronoDateTimeUtc,
        ArrayType::ChronoDateTimeLocal,
        ArrayType::ChronoDateTimeWithTimeZone,
        ArrayType::TimeDate,
        ArrayType::TimeTime,
        ArrayType::TimeDateTime,
        ArrayType::TimeDateTimeWithTimeZone,
        ArrayType::Uuid,
        ArrayType::Decimal,
        ArrayType::BigDecimal,
        ArrayType::IpNetwork,
        ArrayType::MacAddress,
    ]
}

pub(crate) fn array_of(v: &Value) -> Option<&'static str> {
    match v {
        Value::Array(t, _) => Some(array_name(t)),
        _ => None,
    }
}

pub(crate) fn is_null(v: &Value) -> bool {
    match v {
        Value::Bool(x) => x.is_none(),
        Value::TinyInt(x) => x.is_none(),
        Value::SmallInt(x) => x.is_none(),
        Value::Int(x) => x.is_none(),
        Value::BigInt(x) => x.is_none(),
        Value::TinyUnsigned(x) => x.is_none(),
        Value::SmallUnsigned(x) => x.is_none(),
        Value::Unsigned(x) => x.is_none(),
        Value::BigUnsigned(x) => x.is_none(),
        Value::Float(x) => x.is_none(),
        Value::Double(x) => x.is_none(),
        Value::String(x) => x.is_none(),
        Value::Char(x) => x.is_none(),
        Value::Bytes(x) => x.is_none(),
        Value::Json(x) => x.is_none(),
        Value::ChronoDate(x) => x.is_none(),
        Value::ChronoTime(x) => x.is_none(),
        Value::ChronoDateTime(x) => x.is_none(),
        Value::ChronoDateTimeUtc(x) => x.is_none(),
        Value::ChronoDateTimeLocal(x) => x.is_none(),
        Value::ChronoDateTimeWithTimeZone(x) => x.is_none(),
        Value::TimeDate(x) => x.is_none(),
        Value::TimeTime(x) => x.is_none(),
        Value::TimeDateTime(x) => x.is_none(),
        Value::TimeDateTimeWithTimeZone(x) => x.is_none(),
        Value::Uuid(x) => x.is_none(),
        Value::Decimal(x) => x.is_none(),
        Value::BigDecimal(x) => x.is_none(),
        Value::Array(_, x) => x.is_none(),
        Value::Vector(x) => x.is_none(),
        Value::IpNetwork(x) => x.is_none(),
        Value::MacAddress(x) => x.is_none(),
    }
}

fn put(out: &mut Vec<u8>, b: &[u8]) {
    out.extend_from_slice(&(b.len() as u64).to_le_bytes());
    out.extend_from_slice(b);
}

pub(crate) fn enc_json(j: &J, out: &mut Vec<u8>) {
    match j {
        J::Null => out.push(b'n'),
        J::Bool(b) => out.extend_from_slice(&[b'b', *b as u8]),
        J::Number(n) => {
            if let Some(u) = n.as_u64() {
                out.push(b'u');
                out.extend_from_slice(&u.to_le_bytes());
            } else if let Some(i) = n.as_i64() {
                out.push(b'i');
                out.extend_from_slice(&i.to_le_bytes());
            } else {
                out.push(b'f');
                out.extend_from_slice(&n.as_f64().map(|f| f.to_bits()).unwrap_or(u64::MAX).to_le_bytes());
            }
        }
        J::String(s) => {
            out.push(b's');
            put(out, s.as_bytes());
        }
        J::Array(a) => {
            out.push(b'a');
            out.extend_from_slice(&(a.len() as u64).to_le_bytes());
            for e in a {
                enc_json(e, out);
            }
        }
        J::Object(m) => {
            out.push(b'o');
            out.extend_from_slice(&(m.len() as u64).to_le_bytes());
            for (k, e) in m {
                put(out, k.as_bytes());
                enc_json(e, out);
            }
        }
    }
}

fn enc_ndt(x: &chrono::NaiveDateTime, out: &mut Vec<u8>) {
    out.extend_from_slice(&x.date().num_days_from_ce().to_le_bytes());
    out.extend_from_slice(&x.time().num_seconds_from_midnight().to_le_bytes());
    out.extend_from_slice(&x.time().nanosecond().to_le_bytes());
}

fn enc_tdate(x: &time::Date, out: &mut Vec<u8>) {
    out.extend_from_slice(&x.to_julian_day().to_le_bytes());
}

fn enc_ttime(x: &time::Time, out: &mut Vec<u8>) {
    let (h, m, s, n) = x.as_hms_nano();
    out.extend_from_slice(&[h, m, s]);
    out.extend_from_slice(&n.to_le_bytes());
}

/// Canonical bit-level encoding of a `Value` (variant, NULL flag, payload bits).
pub(crate) fn enc(v: &Value, out: &mut Vec<u8>) {
    put(out, variant_name(v).as_bytes());
    if let Value::Array(t, _) = v {
        put(out, array_name(t).as_bytes());
    }
    if is_null(v) {
        out.push(0);
        return;
    }
    out.push(1);
    match v {
        Value::Bool(Some(x)) => out.push(*x as u8),
        Value::TinyInt(Some(x)) => out.extend_from_slice(&x.to_le_bytes()),
        Value::SmallInt(Some(x)) => out.extend_from_slice(&x.to_le_bytes()),
        Value::Int(Some(x)) => out.extend_from_slice(&x.to_le_bytes()),
        Value::BigInt(Some(x)) => out.extend_from_slice(&x.to_le_bytes()),
        Value::TinyUnsigned(Some(x)) => out.extend_from_slice(&x.to_le_bytes()),
        Value::SmallUnsigned(Some(x)) => out.extend_from_slice(&x.to_le_bytes()),
        Value::Unsigned(Some(x)) => out.extend_from_slice(&x.to_le_bytes()),
        Value::BigUnsigned(Some(x)) => out.extend_from_slice(&x.to_le_bytes()),
        Value::Float(Some(x)) => out.extend_from_slice(&x.to_bits().to_le_bytes()),
        Value::Double(Some(x)) => out.extend_from_slice(&x.to_bits().to_le_bytes()),
        Value::String(Some(x)) => put(out, x.as_bytes()),
        Value::Char(Some(x)) => out.extend_from_slice(&(*x as u32).to_le_bytes()),
        Value::Bytes(Some(x)) => put(out, x),
        Value::Json(Some(x)) => enc_json(x, out),
        Value::ChronoDate(Some(x)) => out.extend_from_slice(&x.num_days_from_ce().to_le_bytes()),
        Value::ChronoTime(Some(x)) => {
            out.extend_from_slice(&x.num_seconds_from_midnight().to_le_bytes());
            out.extend_from_slice(&x.nanosecond().to_le_bytes());
        }
        Value::ChronoDateTime(Some(x)) => enc_ndt(x, out),
        Value::ChronoDateTimeUtc(Some(x)) => enc_ndt(&x.naive_utc(), out),
        Value::ChronoDateTimeLocal(Some(x)) => {
            enc_ndt(&x.naive_utc(), out);
            out.extend_from_slice(&x.offset().fix().local_minus_utc().to_le_bytes());
        }
        Value::ChronoDateTimeWithTimeZone(Some(x)) => {
            enc_ndt(&x.naive_utc(), out);
            out.extend_from_slice(&x.offset().fix().local_minus_utc().to_le_bytes());
        }
        Value::TimeDate(Some(x)) => enc_tdate(x, out),
        Value::TimeTime(Some(x)) => enc_ttime(x, out),
        Value::TimeDateTime(Some(x)) => {
            enc_tdate(&x.date(), out);
            enc_ttime(&x.time(), out);
        }
        Value::TimeDateTimeWithTimeZone(Some(x)) => {
            enc_tdate(&x.date(), out);
            enc_ttime(&x.time(), out);
            out.extend_from_slice(&x.offset().whole_seconds().to_le_bytes());
        }
        Value::Uuid(Some(x)) => out.extend_from_slice(&x.as_u128().to_le_bytes()),
        Value::Decimal(Some(x)) => out.extend_from_slice(&x.serialize()),
        Value::BigDecimal(Some(x)) => {
            let (i, e) = x.as_bigint_and_exponent();
            put(out, &i.to_signed_bytes_le());
            out.extend_from_slice(&e.to_le_bytes());
        }
        Value::Array(_, Some(xs)) => {
            out.extend_from_slice(&(xs.len() as u64).to_le_bytes());
            for e in xs.iter() {
                enc(e, out);
            }
        }
        Value::Vector(Some(x)) => {
            out.extend_from_slice(&(x.as_slice().len() as u64).to_le_bytes());
            for f in x.as_slice() {
                out.extend_from_slice(&f.to_bits().to_le_bytes());
            }
        }
        Value::IpNetwork(Some(x)) => {
            match x.ip() {
                std::net::IpAddr::V4(a) => {
                    out.push(4);
                    out.extend_from_slice(&a.octets());
                }
                std::net::IpAddr::V6(a) => {
                    out.push(6);
                    out.extend_from_slice(&a.octets());
                }
            }
            out.push(x.prefix());
        }
        Value::MacAddress(Some(x)) => out.extend_from_slice(&x.bytes()),
        // NULL payloads were handled above
        _ => unreachable!("enc: NULL payload after the NULL check"),
    }
}

pub(crate) fn enc_v(v: &Value) -> Vec<u8> {
    let mut o = Vec::new();
    enc(v, &mut o);
    o
}

fn clip(s: String) -> String {
    if s.chars().count() <= 160 {
        s
    } else {
        let mut t: String = s.chars().take(160).collect();
        t.push('…');
        t
    }
}

pub(crate) fn show_value(v: &Value) -> String {
    guard(|| clip(format!("{v:?}"))).unwrap_or_else(|_| "<unprintable>".into())
}

// ---------------------------------------------------------------------------
// Generators
// ---------------------------------------------------------------------------

fn shape(a: u64, b: u64) -> u64 {
    match b & 3 {
        0 | 1 => a,
        2 => a >> ((b >> 2) & 63),
        _ => !(a >> ((b >> 2) & 63)),
    }
}

fn shape1(raw: u64) -> u64 {
    let mut s = raw;
    let a = splitmix(&mut s);
    let b = splitmix(&mut s);
    shape(a, b)
}

fn gen_u64(r: &mut Rng) -> u64 {
    let a = r.next_u64();
    let b = r.next_u64();
    shape(a, b)
}

const NASTY: [char; 14] =
    ['\0', '\'', '"', '\\', '\n', '\r', 'é', 'ß', '𝄞', '\u{FFFD}', '\u{10FFFF}', ' ', '\u{202E}', '\u{7f}'];

fn gen_string(r: &mut Rng) -> String {
    let max = match r.below(100) {
        0..=5 => 0,
        6..=45 => 8,
        46..=80 => 64,
        81..=97 => 1024,
        _ => 20_000,
    };
    let n = if max == 0 { 0 } else { r.below(max + 1) };
    let mode = r.below(4);
    let mut s = String::new();
    for _ in 0..n {
        let m = if mode == 3 { r.below(3) } else { mode };
        s.push(match m {
            0 => (0x20 + r.below(0x5f) as u8) as char,
            1 => r.any_char(),
            _ => *r.pick(&NASTY),
        });
    }
    s
}

fn gen_bytes(r: &mut Rng) -> Vec<u8> {
    let max = match r.below(100) {
        0..=5 => 0,
        6..=45 => 8,
        46..=80 => 64,
        81..=97 => 1024,
        _ => 60_000,
    };
    let n = if max == 0 { 0 } else { r.below(max + 1) };
    let mut v = Vec::with_capacity(n);
    while v.len() < n {
        let w = r.next_u64().to_le_bytes();
        let take = (n - v.len()).min(8);
        v.extend_from_slice(&w[..take]);
    }
    v
}

fn gen_f32(r: &mut Rng) -> f32 {
    if r.chance(1, 8) {
        *r.pick(&f32::specials())
    } else {
        f32::from_bits(r.next_u32())
    }
}

fn gen_f64(r: &mut Rng) -> f64 {
    if r.chance(1, 8) {
        *r.pick(&f64::specials())
    } else {
        f64::from_bits(r.next_u64())
    }
}

fn gen_json(r: &mut Rng, depth: usize) -> J {
    let k = if depth == 0 { r.below(6) } else { r.below(8) };
    match k {
        0 => J::Null,
        1 => J::Bool(r.coin()),
        2 => J::from(gen_u64(r) as i64),
        3 => J::from(gen_u64(r)),
        4 => {
            let f = gen_f64(r);
            match serde_json::Number::from_f64(f) {
                Some(n) => J::Number(n),
                None => J::from(-0.0f64),
            }
        }
        5 => J::String(if r.chance(1, 3) { gen_string(r) } else { r.string_from(&NASTY, 6, true) }),
        6 => {
            let n = r.below(5);
            J::Array((0..n).map(|_| gen_json(r, depth - 1)).collect())
        }
        _ => {
            let n = r.below(5);
            let mut m = serde_json::Map::new();
            for _ in 0..n {
                let key = r.string_from(&['a', 'b', 'z', 'é', ' ', '"', '\\', '1'], 4, true);
                m.insert(key, gen_json(r, depth - 1));
            }
            J::Object(m)
        }
    }
}

fn gen_ndate(r: &mut Rng, margin: i32) -> chrono::NaiveDate {
    let lo = chrono::NaiveDate::MIN.num_days_from_ce() + margin;
    let hi = chrono::NaiveDate::MAX.num_days_from_ce() - margin;
    let d = match r.below(4) {
        0 => r.range(lo as i64, hi as i64) as i32,
        1 => r.range(693_596, 770_000) as i32, // 1900..2109
        2 => r.range(-400, 400) as i32,
        _ => *r.pick(&[lo, lo + 1, hi - 1, hi, 0, 1, 719_163, 719_162]),
    };
    chrono::NaiveDate::from_num_days_from_ce_opt(d).unwrap_or_default()
}

fn gen_ntime(r: &mut Rng) -> chrono::NaiveTime {
    let secs = match r.below(4) {
        0 => *r.pick(&[0u32, 1, 59, 60, 86_399, 43_200]),
        _ => r.below(86_400) as u32,
    };
    let nano = match r.below(6) {
        0 => 0,
        1 => 999_999_999,
        2 if secs % 60 == 59 => 1_000_000_000 + r.below(1_000_000_000) as u32,
        3 => (r.below(1_000_000) as u32) * 1000,
        _ => r.below(1_000_000_000) as u32,
    };
    chrono::NaiveTime::from_num_seconds_from_midnight_opt(secs, nano).unwrap_or_default()
}

fn gen_ndt(r: &mut Rng, margin: i32) -> chrono::NaiveDateTime {
    chrono::NaiveDateTime::new(gen_ndate(r, margin), gen_ntime(r))
}

fn gen_tdate(r: &mut Rng) -> time::Date {
    let lo = time::Date::MIN.to_julian_day();
    let hi = time::Date::MAX.to_julian_day();
    let d = match r.below(4) {
        0 | 1 => r.range(lo as i64, hi as i64) as i32,
        2 => r.range(2_415_021, 2_490_000) as i32,
        _ => *r.pick(&[lo, lo + 1, hi - 1, hi, 2_440_588, 0]),
    };
    time::Date::from_julian_day(d).unwrap_or(time::Date::MIN)
}

fn gen_ttime(r: &mut Rng) -> time::Time {
    let n = match r.below(4) {
        0 => 0,
        1 => 999_999_999,
        2 => (r.below(1_000_000) as u32) * 1000,
        _ => r.below(1_000_000_000) as u32,
    };
    time::Time::from_hms_nano(r.below(24) as u8, r.below(60) as u8, r.below(60) as u8, n).unwrap_or(time::Time::MIDNIGHT)
}

// ---------------------------------------------------------------------------
// `Rt`: a Rust type that goes through `Value`, with its independent oracle.
// ---------------------------------------------------------------------------

pub(crate) trait Rt: Clone + std::fmt::Debug + Into<Value> + ValueType + 'static {
    /// expected `Value` variant (hand-written table, not derived from sea-query)
    const VARIANT: &'static str;
    /// expected ArrayType when the value is an array
    const ARRAY: Option<&'static str> = None;
    fn name() -> String;
    /// bitwise identity
    fn same(&self, o: &Self) -> bool;
    fn fp(&self) -> u64;
    /// coarse payload class for signatures
    fn class(&self) -> &'static str {
        ""
    }
    fn show(&self) -> String {
        guard(|| clip(format!("{self:?}"))).unwrap_or_else(|_| "<unprintable>".into())
    }
    fn gen(r: &mut Rng) -> Self;
    fn specials() -> Vec<Self>;
}

/// element types of `Vec<T>` arrays (everything sea-query marks `NotU8`)
pub(crate) trait Elem: Rt + NotU8 + Nullable {}

macro_rules! rt_int {
    ($t:ty, $variant:literal) => {
        impl Rt for $t {
            const VARIANT: &'static str = $variant;
            fn name() -> String {
                stringify!($t).to_string()
            }
            fn same(&self, o: &Self) -> bool {
                self == o
            }
            fn fp(&self) -> u64 {
                *self as u64
            }
            fn gen(r: &mut Rng) -> Self {
                if r.chance(1, 8) {
                    *r.pick(&Self::specials())
                } else {
                    gen_u64(r) as $t
                }
            }
            fn specials() -> Vec<Self> {
                let mut v = vec![<$t>::MIN, <$t>::MAX, 0, 1, <$t>::MAX - 1, <$t>::MIN + 1, <$t>::MAX / 2, <$t>::MAX / 2 + 1];
                v.push((0 as $t).wrapping_sub(1));
                let mut p: $t = 1;
                for _ in 0..(<$t>::BITS - 1) {
                    v.push(p);
                    v.push(p.wrapping_sub(1));
                    v.push((0 as $t).wrapping_sub(p));
                    p = p.wrapping_shl(1);
                }
                v
            }
        }
    };
}
rt_int!(i8, "TinyInt");
rt_int!(i16, "SmallInt");
rt_int!(i32, "Int");
rt_int!(i64, "BigInt");
rt_int!(u8, "TinyUnsigned");
rt_int!(u16, "SmallUnsigned");
rt_int!(u32, "Unsigned");
rt_int!(u64, "BigUnsigned");

impl Rt for bool {
    const VARIANT: &'static str = "Bool";
    fn name() -> String {
        "bool".into()
    }
    fn same(&self, o: &Self) -> bool {
        self == o
    }
    fn fp(&self) -> u64 {
        *self as u64
    }
    fn gen(r: &mut Rng) -> Self {
        r.coin()
    }
    fn specials() -> Vec<Self> {
        vec![false, true]
    }
}

impl Rt for char {
    const VARIANT: &'static str = "Char";
    fn name() -> String {
        "char".into()
    }
    fn same(&self, o: &Self) -> bool {
        self == o
    }
    fn fp(&self) -> u64 {
        *self as u64
    }
    fn gen(r: &mut Rng) -> Self {
        r.any_char()
    }
    fn specials() -> Vec<Self> {
        vec!['\0', 'a', '\'', '\u{7f}', '\u{80}', 'é', '\u{7ff}', '\u{800}', '\u{d7ff}', '\u{e000}', '\u{ffff}', '\u{10000}', '\u{10ffff}']
    }
}

fn fclass(nan: bool, inf: bool, zero: bool, sub: bool, neg: bool) -> &'static str {
    match (nan, inf, zero, sub, neg) {
        (true, _, _, _, false) => "[+NaN]",
        (true, _, _, _, true) => "[-NaN]",
        (_, true, _, _, false) => "[+inf]",
        (_, true, _, _, true) => "[-inf]",
        (_, _, true, _, false) => "[+0]",
        (_, _, true, _, true) => "[-0]",
        (_, _, _, true, _) => "[subnormal]",
        _ => "[normal]",
    }
}

macro_rules! rt_float {
    ($t:ty, $bits:ty, $variant:literal, $gen:ident) => {
        impl Rt for $t {
            const VARIANT: &'static str = $variant;
            fn name() -> String {
                stringify!($t).to_string()
            }
            fn same(&self, o: &Self) -> bool {
                self.to_bits() == o.to_bits()
            }
            fn fp(&self) -> u64 {
                self.to_bits() as u64
            }
            fn class(&self) -> &'static str {
                fclass(
                    self.is_nan(),
                    self.is_infinite(),
                    *self == 0.0,
                    self.is_subnormal(),
                    self.is_sign_negative(),
                )
            }
            fn show(&self) -> String {
                format!("{:?} (bits {:#x})", self, self.to_bits())
            }
            fn gen(r: &mut Rng) -> Self {
                $gen(r)
            }
            fn specials() -> Vec<Self> {
                let qnan = <$t>::NAN.to_bits();
                let sign: $bits = 1 << (<$bits>::BITS - 1);
                vec![
                    0.0,
                    -0.0,
                    1.0,
                    -1.0,
                    <$t>::INFINITY,
                    <$t>::NEG_INFINITY,
                    <$t>::NAN,
                    <$t>::from_bits(qnan | sign),
                    <$t>::from_bits(qnan | 1),
                    <$t>::from_bits((qnan | sign) ^ (1 << (<$t>::MANTISSA_DIGITS - 2)) | 1), // signalling, negative
                    <$t>::from_bits((qnan ^ (1 << (<$t>::MANTISSA_DIGITS - 2))) | 0x55),     // signalling
                    <$t>::MIN_POSITIVE,
                    <$t>::from_bits(1),
                    <$t>::from_bits(sign | 1),
                    <$t>::from_bits(<$t>::MIN_POSITIVE.to_bits() - 1),
                    <$t>::MAX,
                    <$t>::MIN,
                    <$t>::EPSILON,
                    0.1,
                    1.0e10,
                ]
            }
        }
    };
}
rt_float!(f32, u32, "Float", gen_f32);
rt_float!(f64, u64, "Double", gen_f64);

fn sclass(s: &str) -> &'static str {
    if s.is_empty() {
        "[empty]"
    } else if s.is_ascii() {
        "[ascii]"
    } else {
        "[unicode]"
    }
}

impl Rt for String {
    const VARIANT: &'static str = "String";
    fn name() -> String {
        "String".into()
    }
    fn same(&self, o: &Self) -> bool {
        self.as_bytes() == o.as_bytes()
    }
    fn fp(&self) -> u64 {
        hash_str(self)
    }
    fn class(&self) -> &'static str {
        sclass(self)
    }
    fn gen(r: &mut Rng) -> Self {
        gen_string(r)
    }
    fn specials() -> Vec<Self> {
        vec![String::new(), "a".into(), "it's".into(), "\0".into(), "é𝄞\u{10FFFF}".into(), "x".repeat(70_000)]
    }
}

impl Rt for Cow<'static, str> {
    const VARIANT: &'static str = "String";
    fn name() -> String {
        "Cow<str>".into()
    }
    fn same(&self, o: &Self) -> bool {
        self.as_bytes() == o.as_bytes()
    }
    fn fp(&self) -> u64 {
        hash_str(self)
    }
    fn class(&self) -> &'static str {
        sclass(self)
    }
    fn gen(r: &mut Rng) -> Self {
        if r.chance(1, 4) {
            Cow::Borrowed(*r.pick(&["", "borrowed", "é", "a'b", "\0"]))
        } else {
            Cow::Owned(gen_string(r))
        }
    }
    fn specials() -> Vec<Self> {
        vec![Cow::Borrowed(""), Cow::Borrowed("b"), Cow::Owned("o𝄞".into())]
    }
}

impl Rt for Vec<u8> {
    const VARIANT: &'static str = "Bytes";
    fn name() -> String {
        "Vec<u8>".into()
    }
    fn same(&self, o: &Self) -> bool {
        self == o
    }
    fn fp(&self) -> u64 {
        hash_bytes(self)
    }
    fn class(&self) -> &'static str {
        if self.is_empty() {
            "[empty]"
        } else {
            "[bytes]"
        }
    }
    fn gen(r: &mut Rng) -> Self {
        gen_bytes(r)
    }
    fn specials() -> Vec<Self> {
        vec![vec![], vec![0], vec![0xff, 0x00, 0x27, 0x5c], (0..=255u8).collect(), vec![0x80; 100_000]]
    }
}

impl Rt for J {
    const VARIANT: &'static str = "Json";
    fn name() -> String {
        "Json".into()
    }
    fn same(&self, o: &Self) -> bool {
        let (mut a, mut b) = (vec![], vec![]);
        enc_json(self, &mut a);
        enc_json(o, &mut b);
        a == b
    }
    fn fp(&self) -> u64 {
        let mut a = vec![];
        enc_json(self, &mut a);
        hash_bytes(&a)
    }
    fn class(&self) -> &'static str {
        match self {
            J::Null => "[null]",
            J::Bool(_) => "[bool]",
            J::Number(_) => "[number]",
            J::String(_) => "[string]",
            J::Array(_) => "[array]",
            J::Object(_) => "[object]",
        }
    }
    fn gen(r: &mut Rng) -> Self {
        gen_json(r, 4)
    }
    fn specials() -> Vec<Self> {
        vec![
            J::Null,
            json!(1),
            json!(1.0),
            json!(-0.0),
            json!(0.0),
            json!(u64::MAX),
            json!(i64::MIN),
            json!(""),
            json!([]),
            json!({}),
            json!({"b": 1, "a": [null, {"k": "é"}]}),
            json!([[[[[[1e308, 5e-324]]]]]]),
        ]
    }
}

// --- chrono -------------------------------------------------------------------

impl Rt for chrono::NaiveDate {
    const VARIANT: &'static str = "ChronoDate";
    fn name() -> String {
        "NaiveDate".into()
    }
    fn same(&self, o: &Self) -> bool {
        self.num_days_from_ce() == o.num_days_from_ce()
    }
    fn fp(&self) -> u64 {
        self.num_days_from_ce() as u64
    }
    fn gen(r: &mut Rng) -> Self {
        gen_ndate(r, 0)
    }
    fn specials() -> Vec<Self> {
        vec![chrono::NaiveDate::default(), chrono::NaiveDate::MIN, chrono::NaiveDate::MAX]
    }
}

fn ntime_key(t: &chrono::NaiveTime) -> u64 {
    ((t.num_seconds_from_midnight() as u64) << 32) | t.nanosecond() as u64
}

impl Rt for chrono::NaiveTime {
    const VARIANT: &'static str = "ChronoTime";
    fn name() -> String {
        "NaiveTime".into()
    }
    fn same(&self, o: &Self) -> bool {
        ntime_key(self) == ntime_key(o)
    }
    fn fp(&self) -> u64 {
        ntime_key(self)
    }
    fn gen(r: &mut Rng) -> Self {
        gen_ntime(r)
    }
    fn specials() -> Vec<Self> {
        vec![
            chrono::NaiveTime::default(),
            chrono::NaiveTime::from_num_seconds_from_midnight_opt(86_399, 1_999_999_999).unwrap(),
            chrono::NaiveTime::from_num_seconds_from_midnight_opt(86_399, 999_999_999).unwrap(),
        ]
    }
}

fn ndt_key(x: &chrono::NaiveDateTime) -> (i32, u64) {
    (x.date().num_days_from_ce(), ntime_key(&x.time()))
}

fn ndt_fp(x: &chrono::NaiveDateTime) -> u64 {
    mix(x.date().num_days_from_ce() as u64, ntime_key(&x.time()))
}

impl Rt for chrono::NaiveDateTime {
    const VARIANT: &'static str = "ChronoDateTime";
    fn name() -> String {
        "NaiveDateTime".into()
    }
    fn same(&self, o: &Self) -> bool {
        ndt_key(self) == ndt_key(o)
    }
    fn fp(&self) -> u64 {
        ndt_fp(self)
    }
    fn gen(r: &mut Rng) -> Self {
        gen_ndt(r, 0)
    }
    fn specials() -> Vec<Self> {
        vec![chrono::NaiveDateTime::default(), chrono::NaiveDateTime::MIN, chrono::NaiveDateTime::MAX]
    }
}

impl Rt for chrono::DateTime<chrono::Utc> {
    const VARIANT: &'static str = "ChronoDateTimeUtc";
    fn name() -> String {
        "DateTime<Utc>".into()
    }
    fn same(&self, o: &Self) -> bool {
        ndt_key(&self.naive_utc()) == ndt_key(&o.naive_utc())
    }
    fn fp(&self) -> u64 {
        ndt_fp(&self.naive_utc())
    }
    fn gen(r: &mut Rng) -> Self {
        chrono::Utc.from_utc_datetime(&gen_ndt(r, 0))
    }
    fn specials() -> Vec<Self> {
        vec![chrono::DateTime::<chrono::Utc>::default(), chrono::DateTime::<chrono::Utc>::MIN_UTC, chrono::DateTime::<chrono::Utc>::MAX_UTC]
    }
}

fn gen_local(r: &mut Rng) -> chrono::DateTime<chrono::Local> {
    // years 1..=9999 only: the generator (not the code under test) asks the tz database
    let days = if r.coin() { r.range(693_596, 770_000) } else { r.range(366, 3_652_000) } as i32;
    let d = chrono::NaiveDate::from_num_days_from_ce_opt(days).unwrap_or_default();
    chrono::Local.from_utc_datetime(&chrono::NaiveDateTime::new(d, gen_ntime(r)))
}

impl Rt for chrono::DateTime<chrono::Local> {
    const VARIANT: &'static str = "ChronoDateTimeLocal";
    fn name() -> String {
        "DateTime<Local>".into()
    }
    fn same(&self, o: &Self) -> bool {
        ndt_key(&self.naive_utc()) == ndt_key(&o.naive_utc())
            && self.offset().fix().local_minus_utc() == o.offset().fix().local_minus_utc()
    }
    fn fp(&self) -> u64 {
        mix(ndt_fp(&self.naive_utc()), self.offset().fix().local_minus_utc() as u64)
    }
    fn gen(r: &mut Rng) -> Self {
        gen_local(r)
    }
    fn specials() -> Vec<Self> {
        vec![chrono::DateTime::<chrono::Local>::default()]
    }
}

fn gen_fixed(r: &mut Rng) -> chrono::DateTime<chrono::FixedOffset> {
    let secs = match r.below(4) {
        0 => *r.pick(&[0, 1, -1, 3600, -3600, 86_399, -86_399, 19_800, 20_700, 45_900]),
        1 => (r.range(-95, 95) * 900) as i32,
        _ => r.range(-86_399, 86_399) as i32,
    };
    let off = chrono::FixedOffset::east_opt(secs).unwrap_or_else(|| chrono::FixedOffset::east_opt(0).unwrap());
    off.from_utc_datetime(&gen_ndt(r, 3))
}

impl Rt for chrono::DateTime<chrono::FixedOffset> {
    const VARIANT: &'static str = "ChronoDateTimeWithTimeZone";
    fn name() -> String {
        "DateTime<FixedOffset>".into()
    }
    fn same(&self, o: &Self) -> bool {
        ndt_key(&self.naive_utc()) == ndt_key(&o.naive_utc())
            && self.offset().local_minus_utc() == o.offset().local_minus_utc()
    }
    fn fp(&self) -> u64 {
        mix(ndt_fp(&self.naive_utc()), self.offset().local_minus_utc() as u64)
    }
    fn class(&self) -> &'static str {
        if self.offset().local_minus_utc() == 0 {
            "[offset 0]"
        } else {
            "[offset != 0]"
        }
    }
    fn gen(r: &mut Rng) -> Self {
        gen_fixed(r)
    }
    fn specials() -> Vec<Self> {
        vec![
            chrono::DateTime::<chrono::FixedOffset>::default(),
            chrono::DateTime::parse_from_rfc3339("2020-01-01T02:02:02+08:00").unwrap(),
            chrono::DateTime::parse_from_rfc3339("1969-12-31T23:59:60.5-23:59").unwrap_or_default(),
        ]
    }
}

// --- time ---------------------------------------------------------------------

impl Rt for time::Date {
    const VARIANT: &'static str = "TimeDate";
    fn name() -> String {
        "time::Date".into()
    }
    fn same(&self, o: &Self) -> bool {
        self.to_julian_day() == o.to_julian_day()
    }
    fn fp(&self) -> u64 {
        self.to_julian_day() as u64
    }
    fn gen(r: &mut Rng) -> Self {
        gen_tdate(r)
    }
    fn specials() -> Vec<Self> {
        vec![time::Date::MIN, time::Date::MAX, time::Date::from_julian_day(2_440_588).unwrap()]
    }
}

fn ttime_key(t: &time::Time) -> u64 {
    let (h, m, s, n) = t.as_hms_nano();
    ((h as u64) << 48) | ((m as u64) << 40) | ((s as u64) << 32) | n as u64
}

impl Rt for time::Time {
    const VARIANT: &'static str = "TimeTime";
    fn name() -> String {
        "time::Time".into()
    }
    fn same(&self, o: &Self) -> bool {
        ttime_key(self) == ttime_key(o)
    }
    fn fp(&self) -> u64 {
        ttime_key(self)
    }
    fn gen(r: &mut Rng) -> Self {
        gen_ttime(r)
    }
    fn specials() -> Vec<Self> {
        vec![time::Time::MIDNIGHT, time::Time::from_hms_nano(23, 59, 59, 999_999_999).unwrap()]
    }
}

impl Rt for time::PrimitiveDateTime {
    const VARIANT: &'static str = "TimeDateTime";
    fn name() -> String {
        "PrimitiveDateTime".into()
    }
    fn same(&self, o: &Self) -> bool {
        self.date().to_julian_day() == o.date().to_julian_day() && ttime_key(&self.time()) == ttime_key(&o.time())
    }
    fn fp(&self) -> u64 {
        mix(self.date().to_julian_day() as u64, ttime_key(&self.time()))
    }
    fn gen(r: &mut Rng) -> Self {
        time::PrimitiveDateTime::new(gen_tdate(r), gen_ttime(r))
    }
    fn specials() -> Vec<Self> {
        vec![time::PrimitiveDateTime::MIN, time::PrimitiveDateTime::MAX]
    }
}

fn gen_odt(r: &mut Rng) -> time::OffsetDateTime {
    let secs = match r.below(4) {
        0 => *r.pick(&[0, 1, -1, 3600, -3600, 86_399, -86_399, 19_800]),
        1 => (r.range(-95, 95) * 900) as i32,
        _ => r.range(-86_399, 86_399) as i32,
    };
    let off = time::UtcOffset::from_whole_seconds(secs).unwrap_or(time::UtcOffset::UTC);
    // stay two days away from the representable limits: only the generator needs that
    let lo = time::Date::MIN.to_julian_day() + 2;
    let hi = time::Date::MAX.to_julian_day() - 2;
    let d = gen_tdate(r).to_julian_day().clamp(lo, hi);
    time::PrimitiveDateTime::new(time::Date::from_julian_day(d).unwrap(), gen_ttime(r)).assume_offset(off)
}

impl Rt for time::OffsetDateTime {
    const VARIANT: &'static str = "TimeDateTimeWithTimeZone";
    fn name() -> String {
        "OffsetDateTime".into()
    }
    fn same(&self, o: &Self) -> bool {
        self.date().to_julian_day() == o.date().to_julian_day()
            && ttime_key(&self.time()) == ttime_key(&o.time())
            && self.offset().whole_seconds() == o.offset().whole_seconds()
    }
    fn fp(&self) -> u64 {
        mix(
            mix(self.date().to_julian_day() as u64, ttime_key(&self.time())),
            self.offset().whole_seconds() as u64,
        )
    }
    fn class(&self) -> &'static str {
        if self.offset().whole_seconds() == 0 {
            "[offset 0]"
        } else {
            "[offset != 0]"
        }
    }
    fn gen(r: &mut Rng) -> Self {
        gen_odt(r)
    }
    fn specials() -> Vec<Self> {
        vec![time::OffsetDateTime::UNIX_EPOCH]
    }
}

// --- decimals, uuid, net --------------------------------------------------------

impl Rt for rust_decimal::Decimal {
    const VARIANT: &'static str = "Decimal";
    fn name() -> String {
        "Decimal".into()
    }
    fn same(&self, o: &Self) -> bool {
        self.serialize() == o.serialize()
    }
    fn fp(&self) -> u64 {
        hash_bytes(&self.serialize())
    }
    fn show(&self) -> String {
        format!("{:?} (bytes {:?})", self, self.serialize())
    }
    fn gen(r: &mut Rng) -> Self {
        let (lo, mid, hi) = match r.below(4) {
            0 => (gen_u64(r) as u32, 0, 0),
            1 => (r.next_u32(), r.next_u32(), 0),
            _ => (r.next_u32(), r.next_u32(), r.next_u32()),
        };
        rust_decimal::Decimal::from_parts(lo, mid, hi, r.coin(), r.below(29) as u32)
    }
    fn specials() -> Vec<Self> {
        use rust_decimal::Decimal as D;
        vec![
            D::ZERO,
            D::ONE,
            D::MAX,
            D::MIN,
            D::from_parts(0, 0, 0, true, 0),
            D::from_parts(0, 0, 0, false, 28),
            D::from_parts(10, 0, 0, false, 1),
            D::from_parts(100, 0, 0, false, 2),
            D::from_parts(1, 0, 0, true, 28),
        ]
    }
}

fn bd_parts(x: &bigdecimal::BigDecimal) -> (Vec<u8>, i64) {
    let (i, e) = x.as_bigint_and_exponent();
    (i.to_signed_bytes_le(), e)
}

impl Rt for bigdecimal::BigDecimal {
    const VARIANT: &'static str = "BigDecimal";
    fn name() -> String {
        "BigDecimal".into()
    }
    fn same(&self, o: &Self) -> bool {
        bd_parts(self) == bd_parts(o)
    }
    fn fp(&self) -> u64 {
        let (b, e) = bd_parts(self);
        mix(hash_bytes(&b), e as u64)
    }
    fn show(&self) -> String {
        let (i, e) = self.as_bigint_and_exponent();
        clip(format!("{i} scale {e}"))
    }
    fn gen(r: &mut Rng) -> Self {
        use bigdecimal::num_bigint::BigInt;
        let n = match r.below(5) {
            0 => 0,
            1 => 1 + r.below(8),
            2 => 1 + r.below(40),
            _ => 1 + r.below(16),
        };
        let bytes: Vec<u8> = (0..n).map(|_| r.next_u64() as u8).collect();
        let scale = match r.below(5) {
            0 => 0,
            1 => r.range(-40, 40),
            2 => r.range(-100_000, 100_000),
            3 => *r.pick(&[i64::MAX, i64::MIN, i64::MAX - 1, i64::MIN + 1, u32::MAX as i64, i32::MIN as i64]),
            _ => r.range(0, 30),
        };
        bigdecimal::BigDecimal::new(BigInt::from_signed_bytes_le(&bytes), scale)
    }
    fn specials() -> Vec<Self> {
        use bigdecimal::num_bigint::BigInt;
        let b = |i: i64, s: i64| bigdecimal::BigDecimal::new(BigInt::from(i), s);
        vec![b(0, 0), b(1, 0), b(10, 1), b(100, 2), b(1, -2), b(0, 5), b(-15, 1), b(i64::MIN, 30)]
    }
}

impl Rt for uuid::Uuid {
    const VARIANT: &'static str = "Uuid";
    fn name() -> String {
        "Uuid".into()
    }
    fn same(&self, o: &Self) -> bool {
        self.as_u128() == o.as_u128()
    }
    fn fp(&self) -> u64 {
        mix(self.as_u128() as u64, (self.as_u128() >> 64) as u64)
    }
    fn gen(r: &mut Rng) -> Self {
        uuid::Uuid::from_u128(((r.next_u64() as u128) << 64) | r.next_u64() as u128)
    }
    fn specials() -> Vec<Self> {
        vec![uuid::Uuid::nil(), uuid::Uuid::from_u128(u128::MAX), uuid::Uuid::from_u128(0x936DA01F_9ABD_4D9D_80C7_02AF85C822A8)]
    }
}

macro_rules! rt_uuid_fmt {
    ($t:ty, $label:literal, $conv:ident) => {
        impl Rt for $t {
            const VARIANT: &'static str = "Uuid";
            fn name() -> String {
                $label.into()
            }
            fn same(&self, o: &Self) -> bool {
                self.as_uuid().as_u128() == o.as_uuid().as_u128()
            }
            fn fp(&self) -> u64 {
                <uuid::Uuid as Rt>::fp(self.as_uuid())
            }
            fn gen(r: &mut Rng) -> Self {
                <uuid::Uuid as Rt>::gen(r).$conv()
            }
            fn specials() -> Vec<Self> {
                <uuid::Uuid as Rt>::specials().into_iter().map(|u| u.$conv()).collect()
            }
        }
    };
}
rt_uuid_fmt!(uuid::fmt::Braced, "uuid::fmt::Braced", braced);
rt_uuid_fmt!(uuid::fmt::Hyphenated, "uuid::fmt::Hyphenated", hyphenated);
rt_uuid_fmt!(uuid::fmt::Simple, "uuid::fmt::Simple", simple);
rt_uuid_fmt!(uuid::fmt::Urn, "uuid::fmt::Urn", urn);

fn ip_key(x: &ipnetwork::IpNetwork) -> (u8, u128, u8) {
    match x.ip() {
        std::net::IpAddr::V4(a) => (4, u32::from(a) as u128, x.prefix()),
        std::net::IpAddr::V6(a) => (6, u128::from(a), x.prefix()),
    }
}

impl Rt for ipnetwork::IpNetwork {
    const VARIANT: &'static str = "IpNetwork";
    fn name() -> String {
        "IpNetwork".into()
    }
    fn same(&self, o: &Self) -> bool {
        ip_key(self) == ip_key(o)
    }
    fn fp(&self) -> u64 {
        let (k, a, p) = ip_key(self);
        mix(mix(a as u64, (a >> 64) as u64), ((k as u64) << 8) | p as u64)
    }
    fn class(&self) -> &'static str {
        if self.is_ipv4() {
            "[v4]"
        } else {
            "[v6]"
        }
    }
    fn gen(r: &mut Rng) -> Self {
        if r.coin() {
            let a = std::net::Ipv4Addr::from(gen_u64(r) as u32);
            ipnetwork::IpNetwork::V4(ipnetwork::Ipv4Network::new(a, r.below(33) as u8).unwrap())
        } else {
            let a = std::net::Ipv6Addr::from(((gen_u64(r) as u128) << 64) | r.next_u64() as u128);
            ipnetwork::IpNetwork::V6(ipnetwork::Ipv6Network::new(a, r.below(129) as u8).unwrap())
        }
    }
    fn specials() -> Vec<Self> {
        vec![
            "0.0.0.0".parse().unwrap(),
            "255.255.255.255/0".parse().unwrap(),
            "10.1.2.3/8".parse().unwrap(),
            "::/0".parse().unwrap(),
            "ffff:ffff:ffff:ffff:ffff:ffff:ffff:ffff/128".parse().unwrap(),
            "::ffff:1.2.3.4/96".parse().unwrap(),
        ]
    }
}

impl Rt for mac_address::MacAddress {
    const VARIANT: &'static str = "MacAddress";
    fn name() -> String {
        "MacAddress".into()
    }
    fn same(&self, o: &Self) -> bool {
        self.bytes() == o.bytes()
    }
    fn fp(&self) -> u64 {
        hash_bytes(&self.bytes())
    }
    fn gen(r: &mut Rng) -> Self {
        let b = r.next_u64().to_le_bytes();
        mac_address::MacAddress::new([b[0], b[1], b[2], b[3], b[4], b[5]])
    }
    fn specials() -> Vec<Self> {
        vec![mac_address::MacAddress::new([0; 6]), mac_address::MacAddress::new([0xff; 6]), mac_address::MacAddress::new([1, 2, 3, 4, 5, 6])]
    }
}

impl Rt for pgvector::Vector {
    const VARIANT: &'static str = "Vector";
    fn name() -> String {
        "pgvector::Vector".into()
    }
    fn same(&self, o: &Self) -> bool {
        let (a, b) = (self.as_slice(), o.as_slice());
        a.len() == b.len() && a.iter().zip(b).all(|(x, y)| x.to_bits() == y.to_bits())
    }
    fn fp(&self) -> u64 {
        let mut h = self.as_slice().len() as u64;
        for f in self.as_slice() {
            h = mix(h, f.to_bits() as u64);
        }
        h
    }
    fn class(&self) -> &'static str {
        if self.as_slice().is_empty() {
            "[empty]"
        } else if self.as_slice().iter().any(|f| f.is_nan()) {
            "[with NaN]"
        } else {
            "[finite or inf]"
        }
    }
    fn gen(r: &mut Rng) -> Self {
        let n = match r.below(20) {
            0 => 0,
            1 => r.below(2001),
            _ => r.below(9),
        };
        pgvector::Vector::from((0..n).map(|_| gen_f32(r)).collect::<Vec<f32>>())
    }
    fn specials() -> Vec<Self> {
        vec![pgvector::Vector::from(vec![]), pgvector::Vector::from(<f32 as Rt>::specials())]
    }
}

// --- Vec<T> arrays and Option<T> ---------------------------------------------------

impl<T: Elem> Rt for Vec<T> {
    const VARIANT: &'static str = "Array";
    const ARRAY: Option<&'static str> = Some(T::VARIANT);
    fn name() -> String {
        format!("Vec<{}>", T::name())
    }
    fn same(&self, o: &Self) -> bool {
        self.len() == o.len() && self.iter().zip(o).all(|(a, b)| a.same(b))
    }
    fn fp(&self) -> u64 {
        let mut h = self.len() as u64 ^ 0xA55A;
        for e in self {
            h = mix(h, e.fp());
        }
        h
    }
    fn class(&self) -> &'static str {
        if self.is_empty() {
            "[empty]"
        } else {
            "[non-empty]"
        }
    }
    fn gen(r: &mut Rng) -> Self {
        let n = match r.below(40) {
            0 | 1 => 0,
            2 => r.below(600),
            _ => r.below(7),
        };
        (0..n).map(|_| T::gen(r)).collect()
    }
    fn specials() -> Vec<Self> {
        vec![vec![], T::specials()]
    }
}

/// Only used as tuple element (no `Nullable` for `Option<T>`).
impl<T: Rt + Nullable> Rt for Option<T> {
    const VARIANT: &'static str = T::VARIANT;
    const ARRAY: Option<&'static str> = T::ARRAY;
    fn name() -> String {
        format!("Option<{}>", T::name())
    }
    fn same(&self, o: &Self) -> bool {
        match (self, o) {
            (None, None) => true,
            (Some(a), Some(b)) => a.same(b),
            _ => false,
        }
    }
    fn fp(&self) -> u64 {
        match self {
            None => 0x4E4F_4E45,
            Some(x) => mix(1, x.fp()),
        }
    }
    fn gen(r: &mut Rng) -> Self {
        if r.chance(1, 4) {
            None
        } else {
            Some(T::gen(r))
        }
    }
    fn specials() -> Vec<Self> {
        vec![None]
    }
}

macro_rules! elem_types {
    ($m:ident) => {
        $m!(bool);
        $m!(i8);
        $m!(i16);
        $m!(i32);
        $m!(i64);
        $m!(u16);
        $m!(u32);
        $m!(u64);
        $m!(f32);
        $m!(f64);
        $m!(char);
        $m!(String);
        $m!(Vec<u8>);
        $m!(J);
        $m!(chrono::NaiveDate);
        $m!(chrono::NaiveTime);
        $m!(chrono::NaiveDateTime);
        $m!(chrono::DateTime<chrono::Utc>);
        $m!(chrono::DateTime<chrono::Local>);
        $m!(chrono::DateTime<chrono::FixedOffset>);
        $m!(time::Date);
        $m!(time::Time);
        $m!(time::PrimitiveDateTime);
        $m!(time::OffsetDateTime);
        $m!(rust_decimal::Decimal);
        $m!(bigdecimal::BigDecimal);
        $m!(uuid::Uuid);
        $m!(uuid::fmt::Braced);
        $m!(uuid::fmt::Hyphenated);
        $m!(uuid::fmt::Simple);
        $m!(uuid::fmt::Urn);
        $m!(ipnetwork::IpNetwork);
        $m!(mac_address::MacAddress);
    };
}

macro_rules! impl_elem {
    ($t:ty) => {
        impl Elem for $t {}
    };
}
elem_types!(impl_elem);

// ---------------------------------------------------------------------------
// Driver plumbing
// ---------------------------------------------------------------------------

struct Viol {
    rule: &'static str,
    sig: String,
    detail: J,
}

fn viol(rule: &'static str, sig: String, detail: J) -> Viol {
    Viol { rule, sig, detail }
}

struct Cx<'a> {
    ctx: &'a Ctx,
    rep: &'a mut Report,
    phase: u64,
    /// per-shard budget of fingerprints kept in the distinct set
    budget: usize,
    not_recorded: u64,
}

const PHASE_SHIFT: u32 = 36;

#[derive(Clone, Copy)]
struct Idx {
    cur: u64,
    end: u64,
    step: u64,
}

impl Iterator for Idx {
    type Item = u64;
    fn next(&mut self) -> Option<u64> {
        if self.cur >= self.end {
            None
        } else {
            let c = self.cur;
            self.cur = self.cur.saturating_add(self.step);
            Some(c)
        }
    }
}

impl<'a> Cx<'a> {
    fn next_phase(&mut self) -> u64 {
        self.phase += 1;
        self.phase << PHASE_SHIFT
    }
    fn replay_idx(&self, base: u64, count: u64) -> Option<Idx> {
        self.ctx.replay.map(|(_, c)| {
            if c >= base && c - base < count {
                Idx { cur: c - base, end: c - base + 1, step: 1 }
            } else {
                Idx { cur: 0, end: 0, step: 1 }
            }
        })
    }
    /// local indices of a global enumeration of `count` cases that belong to this shard
    fn sharded(&self, base: u64, count: u64) -> Idx {
        if let Some(i) = self.replay_idx(base, count) {
            return i;
        }
        let n = self.ctx.nshards;
        let start = (self.ctx.shard + n - base % n) % n;
        Idx { cur: start, end: count, step: n }
    }
    /// local indices of a per-shard random stream of `count` cases
    fn per_shard(&self, base: u64, count: u64) -> Idx {
        if let Some(i) = self.replay_idx(base, count) {
            return i;
        }
        Idx { cur: 0, end: count, step: 1 }
    }
    fn nontrivial(&mut self, fp: u64) {
        if self.rep.distinct.len() < self.budget {
            self.rep.nontrivial(fp);
        } else {
            self.not_recorded += 1;
        }
    }
    fn report(&mut self, n: u64, ty: &str, r: Result<Vec<Viol>, String>, input: &dyn Fn() -> String) {
        match r {
            Ok(vs) => {
                for v in vs {
                    let mut d = v.detail;
                    if let J::Object(m) = &mut d {
                        m.insert("type".into(), json!(ty));
                        m.insert("input".into(), json!(input()));
                    }
                    self.rep.violation(v.rule, "-", v.sig, d, self.ctx.shard, n);
                }
            }
            Err(p) => self.rep.violation(
                "R.panic",
                "-",
                format!("{ty}: {}", panic_sig(&p)),
                json!({"type": ty, "input": input(), "panic": p}),
                self.ctx.shard,
                n,
            ),
        }
    }
}

/// Sequential random words with cheap random access: word `k` is the (k % BLK)-th
/// draw of the stream `(name, k / BLK)`, so any single case can be regenerated.
struct BlockRng<'a> {
    ctx: &'a Ctx,
    stream: String,
    block: u64,
    pos: u64,
    rng: Rng,
}

const BLK: u64 = 4096;

impl<'a> BlockRng<'a> {
    fn new(ctx: &'a Ctx, stream: &str) -> Self {
        BlockRng { ctx, stream: stream.to_string(), block: u64::MAX, pos: 0, rng: Rng::new(0) }
    }
    fn at(&mut self, k: u64) -> u64 {
        let (b, p) = (k / BLK, k % BLK);
        if b != self.block || p < self.pos {
            self.rng = self.ctx.rng(&self.stream, b);
            self.block = b;
            self.pos = 0;
        }
        while self.pos < p {
            self.rng.next_u64();
            self.pos += 1;
        }
        self.pos += 1;
        self.rng.next_u64()
    }
}

// ---------------------------------------------------------------------------
// The per-value checks (everything here runs inside `guard`)
// ---------------------------------------------------------------------------

fn shape_check<X: Rt>(v: &Value, name: &str, what: &str, want_null: bool, out: &mut Vec<Viol>) {
    let vn = variant_name(v);
    if vn != X::VARIANT {
        out.push(viol(
            "R.variant",
            format!("{name} -> {what} gives {vn}"),
            json!({"expected_variant": X::VARIANT, "got": show_value(v)}),
        ));
    }
    let an = array_of(v);
    if an != X::ARRAY {
        out.push(viol(
            "R.variant",
            format!("{name} -> {what} gives ArrayType {}", an.unwrap_or("none")),
            json!({"expected_array_type": X::ARRAY, "got": show_value(v)}),
        ));
    }
    if is_null(v) != want_null {
        out.push(viol(
            "R.null",
            format!("{name} -> {what} is {}", if want_null { "not NULL" } else { "NULL" }),
            json!({"got": show_value(v)}),
        ));
    }
}

fn probe_plain<X: Rt>(x: &X, name: &str, out: &mut Vec<Viol>) {
    let v: Value = x.clone().into();
    shape_check::<X>(&v, name, "Value::from", false, out);
    match <X as ValueType>::try_from(v.clone()) {
        Ok(y) => {
            if !y.same(x) {
                out.push(viol(
                    "R.roundtrip",
                    format!("{name}{}: try_from(Value::from(x)) differs from x", x.class()),
                    json!({"got": y.show(), "value": show_value(&v)}),
                ));
            }
        }
        Err(_) => out.push(viol(
            "R.roundtrip",
            format!("{name}{}: try_from(Value::from(x)) fails", x.class()),
            json!({"value": show_value(&v)}),
        )),
    }
    // Value::unwrap must agree with try_from (a panic here is reported as R.panic)
    let y: X = v.clone().unwrap();
    if !y.same(x) {
        out.push(viol(
            "R.roundtrip",
            format!("{name}{}: Value::from(x).unwrap() differs from x", x.class()),
            json!({"got": y.show(), "value": show_value(&v)}),
        ));
    }
    // null-of-same-type and dummy value keep the variant
    let d0 = discriminant(&v);
    let nl = v.as_null();
    if discriminant(&nl) != d0 {
        out.push(viol(
            "R.as_null",
            format!("{name} -> as_null changes the discriminant to {}", variant_name(&nl)),
            json!({"got": show_value(&nl)}),
        ));
    }
    shape_check::<X>(&nl, name, "as_null", true, out);
    if <X as ValueType>::try_from(nl.clone()).is_ok() {
        out.push(viol("R.null", format!("{name}: NULL extracts as a present value"), json!({"value": show_value(&nl)})));
    }
    let dv = v.dummy_value();
    if discriminant(&dv) != d0 {
        out.push(viol(
            "R.dummy",
            format!("{name} -> dummy_value changes the discriminant to {}", variant_name(&dv)),
            json!({"got": show_value(&dv)}),
        ));
    }
    shape_check::<X>(&dv, name, "dummy_value", false, out);
    if <X as ValueType>::try_from(dv.clone()).is_err() {
        out.push(viol(
            "R.dummy",
            format!("{name}: dummy_value does not extract as {name}"),
            json!({"value": show_value(&dv)}),
        ));
    }
}

fn probe_opt<X: Rt + Nullable>(x: &X, name: &str, out: &mut Vec<Viol>) {
    let vs: Value = Some(x.clone()).into();
    shape_check::<X>(&vs, name, "Value::from(Some)", false, out);
    match <Option<X> as ValueType>::try_from(vs.clone()) {
        Ok(Some(y)) => {
            if !y.same(x) {
                out.push(viol(
                    "R.option",
                    format!("Option<{name}>{}: Some(x) extracts as a different value", x.class()),
                    json!({"got": y.show(), "value": show_value(&vs)}),
                ));
            }
        }
        Ok(None) => out.push(viol(
            "R.option",
            format!("Option<{name}>{}: Some(x) extracts as None", x.class()),
            json!({"value": show_value(&vs)}),
        )),
        Err(_) => out.push(viol(
            "R.option",
            format!("Option<{name}>{}: Some(x) fails to extract", x.class()),
            json!({"value": show_value(&vs)}),
        )),
    }
    // Some(x) is stored exactly like x
    match <X as ValueType>::try_from(vs) {
        Ok(y) if y.same(x) => {}
        _ => out.push(viol(
            "R.option",
            format!("{name}{}: Value::from(Some(x)) does not extract as x", x.class()),
            json!({}),
        )),
    }
    // and a plain x can be read as a present optional
    let v: Value = x.clone().into();
    match <Option<X> as ValueType>::try_from(v.clone()) {
        Ok(Some(y)) if y.same(x) => {}
        Ok(None) => out.push(viol(
            "R.option",
            format!("Option<{name}>{}: present value extracts as None", x.class()),
            json!({"value": show_value(&v)}),
        )),
        _ => out.push(viol(
            "R.option",
            format!("Option<{name}>{}: present value does not extract as Some(x)", x.class()),
            json!({"value": show_value(&v)}),
        )),
    }
    // the NULL of the value's own variant reads back as absent
    match <Option<X> as ValueType>::try_from(v.as_null()) {
        Ok(None) => {}
        _ => out.push(viol(
            "R.option",
            format!("Option<{name}>: as_null() of a value does not extract as None"),
            json!({"value": show_value(&v.as_null())}),
        )),
    }
}

fn probe<X: Rt + Nullable>(x: &X, name: &str) -> Vec<Viol> {
    let mut out = Vec::new();
    probe_plain(x, name, &mut out);
    probe_opt(x, name, &mut out);
    out
}

/// `None::<X>` — once per type.
fn probe_none<X: Rt + Nullable>(name: &str) -> Vec<Viol> {
    let mut out = Vec::new();
    let vn: Value = Option::<X>::None.into();
    shape_check::<X>(&vn, name, "Value::from(None)", true, &mut out);
    let nl = <X as Nullable>::null();
    shape_check::<X>(&nl, name, "Nullable::null", true, &mut out);
    match <Option<X> as ValueType>::try_from(vn.clone()) {
        Ok(None) => {}
        Ok(Some(_)) => out.push(viol("R.option", format!("Option<{name}>: None extracts as Some"), json!({}))),
        Err(_) => out.push(viol("R.option", format!("Option<{name}>: None fails to extract"), json!({}))),
    }
    if <X as ValueType>::try_from(vn.clone()).is_ok() {
        out.push(viol("R.null", format!("{name}: NULL extracts as a present value"), json!({})));
    }
    if guard(|| vn.clone().unwrap::<X>()).is_ok() {
        out.push(viol("R.null", format!("{name}: unwrap of NULL does not panic"), json!({})));
    }
    let o: Option<X> = vn.clone().unwrap();
    if o.is_some() {
        out.push(viol("R.option", format!("Option<{name}>: unwrap of NULL gives Some"), json!({})));
    }
    let d0 = discriminant(&vn);
    let a = vn.as_null();
    if discriminant(&a) != d0 {
        out.push(viol("R.as_null", format!("{name} -> as_null changes the discriminant to {}", variant_name(&a)), json!({})));
    }
    shape_check::<X>(&a, name, "as_null", true, &mut out);
    let dv = vn.dummy_value();
    if discriminant(&dv) != d0 {
        out.push(viol("R.dummy", format!("{name} -> dummy_value changes the discriminant to {}", variant_name(&dv)), json!({})));
    }
    shape_check::<X>(&dv, name, "dummy_value", false, &mut out);
    out
}

/// Run one stream of values of type X. `mk(i)` maps a local index to a value.
fn stream<X: Rt + Nullable>(cx: &mut Cx, sharded: bool, count: u64, mut mk: impl FnMut(u64) -> Option<X>) -> u64 {
    let base = cx.next_phase();
    let name = X::name();
    let nh = hash_str(&name);
    let idx = if sharded { cx.sharded(base, count) } else { cx.per_shard(base, count) };
    let mut done = 0u64;
    for i in idx {
        let x = match mk(i) {
            Some(x) => x,
            None => continue,
        };
        let n = base + i;
        cx.rep.eval();
        let r = guard(|| probe(&x, &name));
        match &r {
            Ok(v) if v.is_empty() => {}
            _ => cx.report(n, &name, r, &|| x.show()),
        }
        cx.nontrivial(mix(nh, x.fp()));
        if done == 1 && !sharded && cx.ctx.shard == 0 && cx.rep.samples.len() < cx.rep.max_samples {
            cx.rep.sample(json!({"kind": "round-trip", "type": name, "value": x.show(), "case": n}));
        }
        done += 1;
    }
    cx.rep.count(&format!("roundtrip/{name}"), done);
    cx.rep.count("roundtrips_total", done);
    cx.rep.count("options_checked", done);
    done
}

/// Specials + `None` + random values for one type.
fn typed<X: Rt + Nullable>(cx: &mut Cx, quick: u64, thorough: u64) {
    let name = X::name();
    // None, as its own one-case phase (shard 0 in a normal run)
    let base = cx.next_phase();
    for i in cx.sharded(base, 1) {
        cx.rep.eval();
        let r = guard(|| probe_none::<X>(&name));
        cx.report(base + i, &name, r, &|| "None".to_string());
        cx.rep.count("options_checked", 1);
        cx.rep.count("none_checked_types", 1);
        cx.rep.note("types", name.clone());
    }
    let sp = guard(X::specials).unwrap_or_default();
    let nsp = sp.len() as u64;
    stream::<X>(cx, true, nsp, |i| sp.get(i as usize).cloned());
    let per = cx.ctx.size(quick, thorough) / cx.ctx.nshards;
    let ctx = cx.ctx;
    let sname = format!("gen/{name}");
    stream::<X>(cx, false, per, |k| {
        let mut r = ctx.rng(&sname, k);
        Some(X::gen(&mut r))
    });
}

// ---------------------------------------------------------------------------
// Cow<str> and borrowed sources (&str, &String, &[u8], Option<&str>)
// ---------------------------------------------------------------------------

fn borrowed(cx: &mut Cx) {
    let base = cx.next_phase();
    let per = cx.ctx.size(16_000, 800_000) / cx.ctx.nshards;
    let mut done = 0;
    for k in cx.per_shard(base, per) {
        let mut r = cx.ctx.rng("borrowed", k);
        let c = <Cow<'static, str> as Rt>::gen(&mut r);
        let s = if k % 2 == 0 { c.to_string() } else { gen_string(&mut r) };
        let b = gen_bytes(&mut r);
        cx.rep.eval();
        let res = guard(|| {
            let mut out = Vec::new();
            probe_plain(&c, "Cow<str>", &mut out);
            let mut str_src = |what: &'static str, v: Value, want: &str| {
                if variant_name(&v) != "String" || is_null(&v) {
                    out.push(viol("R.variant", format!("{what} -> Value::from gives {}{}", variant_name(&v), if is_null(&v) { " NULL" } else { "" }), json!({})));
                }
                match <String as ValueType>::try_from(v.clone()) {
                    Ok(y) if y.as_bytes() == want.as_bytes() => {}
                    _ => out.push(viol("R.roundtrip", format!("{what}{}: does not extract as the same String", sclass(want)), json!({"value": show_value(&v)}))),
                }
                match <Cow<'_, str> as ValueType>::try_from(v.clone()) {
                    Ok(y) if y.as_bytes() == want.as_bytes() => {}
                    _ => out.push(viol("R.roundtrip", format!("{what}{}: does not extract as the same Cow<str>", sclass(want)), json!({"value": show_value(&v)}))),
                }
                match <Option<String> as ValueType>::try_from(v) {
                    Ok(Some(y)) if y.as_bytes() == want.as_bytes() => {}
                    _ => out.push(viol("R.option", format!("{what}{}: does not extract as Some(String)", sclass(want)), json!({}))),
                }
            };
            str_src("&str", Value::from(s.as_str()), &s);
            str_src("&String", Value::from(&s), &s);
            str_src("Option<&str>", Value::from(Some(s.as_str())), &s);
            str_src("Cow<str>", Value::from(c.clone()), &c);
            str_src("Cow::Borrowed", Value::from(Cow::Borrowed(s.as_str())), &s);
            let nn = Value::from(None::<&str>);
            if variant_name(&nn) != "String" || !is_null(&nn) {
                out.push(viol("R.option", format!("Option<&str>: None gives {}", variant_name(&nn)), json!({})));
            }
            let nn2 = <&str as Nullable>::null();
            if variant_name(&nn2) != "String" || !is_null(&nn2) {
                out.push(viol("R.option", format!("<&str as Nullable>::null gives {}", variant_name(&nn2)), json!({})));
            }
            if !matches!(<Option<String> as ValueType>::try_from(nn.clone()), Ok(None)) {
                out.push(viol("R.option", "Option<&str>: None does not extract as None::<String>".to_string(), json!({})));
            }
            if <Cow<'_, str> as ValueType>::try_from(nn).is_ok() {
                out.push(viol("R.null", "Cow<str>: NULL extracts as a present value".to_string(), json!({})));
            }
            let vb = Value::from(b.as_slice());
            if variant_name(&vb) != "Bytes" || is_null(&vb) {
                out.push(viol("R.variant", format!("&[u8] -> Value::from gives {}", variant_name(&vb)), json!({})));
            }
            match <Vec<u8> as ValueType>::try_from(vb) {
                Ok(y) if y == b => {}
                _ => out.push(viol("R.roundtrip", "&[u8]: does not extract as the same Vec<u8>".to_string(), json!({}))),
            }
            out
        });
        match &res {
            Ok(v) if v.is_empty() => {}
            _ => cx.report(base + k, "borrowed", res, &|| clip(format!("{s:?} / {} bytes", b.len()))),
        }
        cx.nontrivial(mix(hash_str("&str"), hash_str(&s)));
        cx.nontrivial(mix(hash_str("Cow<str>"), hash_str(&c)));
        cx.nontrivial(mix(hash_str("&[u8]"), hash_bytes(&b)));
        done += 1;
    }
    for k in ["roundtrip/&str", "roundtrip/&String", "roundtrip/Option<&str>", "roundtrip/Cow<str>", "roundtrip/&[u8]"] {
        cx.rep.count(k, done);
    }
    cx.rep.count("roundtrips_total", 5 * done);
    cx.rep.count("options_checked", done);
}

// ---------------------------------------------------------------------------
// (source value) x (target type) extraction matrix
// ---------------------------------------------------------------------------

struct Src {
    label: String,
    v: Value,
    variant: &'static str,
    array: Option<&'static str>,
    null: bool,
    enc: Vec<u8>,
}

struct Ext {
    none: bool,
    back: Vec<u8>,
    shown: String,
}

struct Tgt {
    label: String,
    variant: &'static str,
    array: Option<&'static str>,
    opt: bool,
    try_: fn(Value) -> Result<Ext, ()>,
    unwrap_: fn(Value) -> Ext,
    expect_: fn(Value) -> Ext,
}

fn ext<X: Rt>(x: X) -> Ext {
    Ext { none: false, shown: x.show(), back: enc_v(&x.into()) }
}

fn ext_opt<X: Rt + Nullable>(x: Option<X>) -> Ext {
    Ext {
        none: x.is_none(),
        shown: x.as_ref().map(|x| x.show()).unwrap_or_else(|| "None".into()),
        back: enc_v(&x.into()),
    }
}

fn t_try<X: Rt>(v: Value) -> Result<Ext, ()> {
    <X as ValueType>::try_from(v).map(ext).map_err(|_| ())
}
fn t_unwrap<X: Rt>(v: Value) -> Ext {
    ext(v.unwrap::<X>())
}
fn t_expect<X: Rt>(v: Value) -> Ext {
    ext(v.expect::<X>("c12 expect"))
}
fn t_try_opt<X: Rt + Nullable>(v: Value) -> Result<Ext, ()> {
    <Option<X> as ValueType>::try_from(v).map(ext_opt).map_err(|_| ())
}
fn t_unwrap_opt<X: Rt + Nullable>(v: Value) -> Ext {
    ext_opt(v.unwrap::<Option<X>>())
}
fn t_expect_opt<X: Rt + Nullable>(v: Value) -> Ext {
    ext_opt(v.expect::<Option<X>>("c12 expect"))
}

fn add_target<X: Rt>(tgts: &mut Vec<Tgt>) {
    tgts.push(Tgt {
        label: X::name(),
        variant: X::VARIANT,
        array: X::ARRAY,
        opt: false,
        try_: t_try::<X>,
        unwrap_: t_unwrap::<X>,
        expect_: t_expect::<X>,
    });
}

fn add_sources<X: Rt>(srcs: &mut Vec<Src>, r: &mut Rng) {
    let mut xs: Vec<X> = X::specials().into_iter().take(2).collect();
    xs.push(X::gen(r));
    for x in xs {
        let v: Value = x.into();
        srcs.push(Src { label: X::name(), enc: enc_v(&v), v, variant: X::VARIANT, array: X::ARRAY, null: false });
    }
}

fn add_type<X: Rt + Nullable>(srcs: &mut Vec<Src>, tgts: &mut Vec<Tgt>, r: &mut Rng) {
    add_sources::<X>(srcs, r);
    let v: Value = Option::<X>::None.into();
    srcs.push(Src {
        label: format!("Option<{}>::None", X::name()),
        enc: enc_v(&v),
        v,
        variant: X::VARIANT,
        array: X::ARRAY,
        null: true,
    });
    add_target::<X>(tgts);
    tgts.push(Tgt {
        label: format!("Option<{}>", X::name()),
        variant: X::VARIANT,
        array: X::ARRAY,
        opt: true,
        try_: t_try_opt::<X>,
        unwrap_: t_unwrap_opt::<X>,
        expect_: t_expect_opt::<X>,
    });
}

fn build_matrix(ctx: &Ctx) -> (Vec<Src>, Vec<Tgt>) {
    let mut srcs = vec![];
    let mut tgts = vec![];
    let mut r = ctx.rng_global("matrix", 0);
    macro_rules! scalar_and_array {
        ($t:ty) => {
            add_type::<$t>(&mut srcs, &mut tgts, &mut r);
            add_type::<Vec<$t>>(&mut srcs, &mut tgts, &mut r);
        };
    }
    elem_types!(scalar_and_array);
    add_type::<u8>(&mut srcs, &mut tgts, &mut r);
    add_type::<pgvector::Vector>(&mut srcs, &mut tgts, &mut r);
    add_sources::<Cow<'static, str>>(&mut srcs, &mut r);
    add_target::<Cow<'static, str>>(&mut tgts);
    // borrowed sources
    let mut push = |label: &str, v: Value, variant: &'static str, null: bool| {
        srcs.push(Src { label: label.into(), enc: enc_v(&v), v, variant, array: None, null });
    };
    push("&str", Value::from("borrowed é"), "String", false);
    push("&String", Value::from(&String::from("ref")), "String", false);
    push("Option<&str>", Value::from(Some("opt")), "String", false);
    push("Option<&str>::None", Value::from(None::<&str>), "String", true);
    push("&[u8]", Value::from(&b"\x00\xffab"[..]), "Bytes", false);
    (srcs, tgts)
}

fn matrix(cx: &mut Cx) {
    let base = cx.next_phase();
    // the replayed case may be outside this phase: then skip building it
    if let Some((_, c)) = cx.ctx.replay {
        if c >> PHASE_SHIFT != base >> PHASE_SHIFT {
            return;
        }
    }
    let ctx = cx.ctx;
    let (srcs, tgts) = match guard(|| build_matrix(ctx)) {
        Ok(x) => x,
        Err(p) => {
            cx.rep.violation("R.panic", "-", format!("matrix sources: {}", panic_sig(&p)), json!({"panic": p}), ctx.shard, base);
            return;
        }
    };
    let (ns, nt) = (srcs.len() as u64, tgts.len() as u64);
    let (mut cells, mut must_fail, mut must_ok) = (0u64, 0u64, 0u64);
    let mut sampled = [false; 2];
    for i in cx.sharded(base, ns * nt) {
        let s = &srcs[(i / nt) as usize];
        let t = &tgts[(i % nt) as usize];
        let n = base + i;
        cx.rep.eval();
        cells += 1;
        let compatible = s.variant == t.variant && s.array == t.array;
        let want_ok = if t.opt { compatible } else { compatible && !s.null };
        if want_ok {
            must_ok += 1;
        } else {
            must_fail += 1;
        }
        let cell = format!("{} as {}", s.label, t.label);
        let detail = |extra: J| json!({"source": show_value(&s.v), "target": t.label, "observed": extra});
        let got = guard(|| (t.try_)(s.v.clone()));
        let ok_flag = match &got {
            Err(p) => {
                // try_from itself must not panic, whatever the cell
                cx.rep.violation("R.panic", "-", format!("{cell}: try_from panics: {}", panic_sig(p)), detail(json!(p)), ctx.shard, n);
                None
            }
            Ok(Err(())) => {
                if want_ok {
                    cx.rep.violation("R.matrix", "-", format!("{cell}: extraction fails on the diagonal"), detail(json!("Err")), ctx.shard, n);
                }
                Some(false)
            }
            Ok(Ok(e)) => {
                if !want_ok {
                    cx.rep.violation("R.matrix", "-", format!("{cell}: extraction succeeds"), detail(json!(e.shown)), ctx.shard, n);
                } else {
                    if t.opt && e.none != s.null {
                        let what = if s.null { "NULL extracts as Some" } else { "present value extracts as None" };
                        cx.rep.violation("R.option", "-", format!("{cell}: {what}"), detail(json!(e.shown)), ctx.shard, n);
                    }
                    if e.back != s.enc {
                        cx.rep.violation("R.matrix", "-", format!("{cell}: extracted value differs"), detail(json!(e.shown)), ctx.shard, n);
                    }
                }
                Some(true)
            }
        };
        // unwrap / expect panic exactly when try_from errs
        if let Some(ok) = ok_flag {
            for (what, f) in [("unwrap", t.unwrap_), ("expect", t.expect_)] {
                let r = guard(|| f(s.v.clone()));
                match (ok, r) {
                    (true, Ok(e)) => {
                        if e.back != s.enc && want_ok {
                            cx.rep.violation("R.matrix", "-", format!("{cell}: {what} gives a different value"), detail(json!(e.shown)), ctx.shard, n);
                        }
                    }
                    (false, Err(_)) => {}
                    (true, Err(p)) => {
                        cx.rep.violation("R.unwrap", "-", format!("{cell}: {what} panics although try_from succeeds"), detail(json!(p)), ctx.shard, n)
                    }
                    (false, Ok(e)) => {
                        cx.rep.violation("R.unwrap", "-", format!("{cell}: {what} returns although try_from fails"), detail(json!(e.shown)), ctx.shard, n)
                    }
                }
            }
        }
        if want_ok && !s.null {
            cx.nontrivial(mix(hash_str(&cell), hash_bytes(&s.enc)));
        }
        let interesting = if want_ok { !s.null && s.label != t.label && !t.opt } else { compatible || s.variant == "Uuid" };
        if ctx.shard == 0 && interesting && !sampled[want_ok as usize] {
            sampled[want_ok as usize] = true;
            cx.rep.sample(json!({"kind": "matrix cell", "source_type": s.label, "source": show_value(&s.v), "target": t.label,
                "expected": if want_ok {"Ok"} else {"Err"}, "try_from_ok": ok_flag}));
        }
    }
    cx.rep.count("matrix_cells", cells);
    cx.rep.count("matrix_cells_must_fail", must_fail);
    cx.rep.count("matrix_cells_must_succeed", must_ok);
    cx.rep.max("max_matrix_sources", ns);
    cx.rep.max("max_matrix_targets", nt);
}

// ---------------------------------------------------------------------------
// Tuples
// ---------------------------------------------------------------------------

fn vt_shape(vt: &ValueTuple) -> String {
    match vt {
        ValueTuple::One(_) => "One".into(),
        ValueTuple::Two(..) => "Two".into(),
        ValueTuple::Three(..) => "Three".into(),
        ValueTuple::Many(v) => format!("Many({})", v.len()),
    }
}

/// One heterogeneous tuple of arity N (N >= 2): into_value_tuple, into_iter, from_value_tuple.
macro_rules! tuple_case {
    ($n:expr, $rng:expr; $($idx:tt : $T:ty),+) => {{
        type Tup = ($($T,)+);
        let t: Tup = ($(<$T as Rt>::gen($rng),)+);
        let shown = clip(format!("{:?}", t));
        let mut fp = $n as u64;
        $( fp = mix(fp, t.$idx.fp()); )+
        let r = guard(|| {
            let mut out: Vec<Viol> = vec![];
            let vt = t.clone().into_value_tuple();
            let items: Vec<Value> = vt.clone().into_iter().collect();
            if items.len() != $n {
                out.push(viol("R.tuple", format!("arity {}: into_value_tuple().into_iter() yields {} items", $n, items.len()),
                    json!({"shape": vt_shape(&vt)})));
            }
            $(
                let want = enc_v(&Value::from(t.$idx.clone()));
                if items.get($idx).map(enc_v).as_ref() != Some(&want) {
                    out.push(viol("R.tuple", format!("arity {}: item {} of into_iter is not element {}", $n, $idx, $idx),
                        json!({"shape": vt_shape(&vt), "got": items.get($idx).map(show_value)})));
                }
            )+
            let back: Tup = FromValueTuple::from_value_tuple(t.clone());
            $(
                if !back.$idx.same(&t.$idx) {
                    out.push(viol("R.tuple", format!("arity {}: from_value_tuple changes element {}", $n, $idx),
                        json!({"got": back.$idx.show()})));
                }
            )+
            let back2: Tup = FromValueTuple::from_value_tuple(vt);
            $(
                if !back2.$idx.same(&t.$idx) {
                    out.push(viol("R.tuple", format!("arity {}: from_value_tuple(ValueTuple) changes element {}", $n, $idx),
                        json!({"got": back2.$idx.show()})));
                }
            )+
            out
        });
        (r, shown, fp)
    }};
}

fn tuple_het(n: usize, r: &mut Rng) -> (Result<Vec<Viol>, String>, String, u64) {
    match n {
        1 => {
            // arity 1 is a bare value
            let t: i32 = <i32 as Rt>::gen(r);
            let res = guard(|| {
                let mut out = vec![];
                let vt = t.into_value_tuple();
                let items: Vec<Value> = vt.clone().into_iter().collect();
                if items.len() != 1 || enc_v(&items[0]) != enc_v(&Value::from(t)) {
                    out.push(viol("R.tuple", "arity 1: into_iter does not yield exactly the value".to_string(), json!({"shape": vt_shape(&vt)})));
                }
                let b: i32 = FromValueTuple::from_value_tuple(t);
                let b2: i32 = FromValueTuple::from_value_tuple(vt);
                if b != t || b2 != t {
                    out.push(viol("R.tuple", "arity 1: from_value_tuple changes the value".to_string(), json!({"got": [b, b2]})));
                }
                out
            });
            (res, format!("{t:?}"), mix(1, t as u64))
        }
        2 => tuple_case!(2, r; 0: i32, 1: String),
        3 => tuple_case!(3, r; 0: i32, 1: String, 2: f64),
        4 => tuple_case!(4, r; 0: i32, 1: String, 2: f64, 3: u8),
        5 => tuple_case!(5, r; 0: i32, 1: String, 2: f64, 3: u8, 4: bool),
        6 => tuple_case!(6, r; 0: i32, 1: String, 2: f64, 3: u8, 4: bool, 5: Option<i64>),
        7 => tuple_case!(7, r; 0: i32, 1: String, 2: f64, 3: u8, 4: bool, 5: Option<i64>, 6: char),
        8 => tuple_case!(8, r; 0: i32, 1: String, 2: f64, 3: u8, 4: bool, 5: Option<i64>, 6: char, 7: Vec<u8>),
        9 => tuple_case!(9, r; 0: i32, 1: String, 2: f64, 3: u8, 4: bool, 5: Option<i64>, 6: char, 7: Vec<u8>, 8: u16),
        10 => tuple_case!(10, r; 0: i32, 1: String, 2: f64, 3: u8, 4: bool, 5: Option<i64>, 6: char, 7: Vec<u8>, 8: u16, 9: f32),
        11 => tuple_case!(11, r; 0: i32, 1: String, 2: f64, 3: u8, 4: bool, 5: Option<i64>, 6: char, 7: Vec<u8>, 8: u16, 9: f32, 10: Vec<i16>),
        _ => tuple_case!(12, r; 0: i32, 1: String, 2: f64, 3: u8, 4: bool, 5: Option<i64>, 6: char, 7: Vec<u8>, 8: u16, 9: f32, 10: Vec<i16>, 11: u64),
    }
}

/// Homogeneous tuples: same element type everywhere, so only position can tell elements apart.
fn tuple_hom(n: usize, r: &mut Rng) -> (Result<Vec<Viol>, String>, String, u64) {
    match n {
        1 => tuple_het(1, r),
        2 => tuple_case!(2, r; 0: i64, 1: i64),
        3 => tuple_case!(3, r; 0: i64, 1: i64, 2: i64),
        4 => tuple_case!(4, r; 0: i64, 1: i64, 2: i64, 3: i64),
        5 => tuple_case!(5, r; 0: i64, 1: i64, 2: i64, 3: i64, 4: i64),
        6 => tuple_case!(6, r; 0: i64, 1: i64, 2: i64, 3: i64, 4: i64, 5: i64),
        7 => tuple_case!(7, r; 0: i64, 1: i64, 2: i64, 3: i64, 4: i64, 5: i64, 6: i64),
        8 => tuple_case!(8, r; 0: i64, 1: i64, 2: i64, 3: i64, 4: i64, 5: i64, 6: i64, 7: i64),
        9 => tuple_case!(9, r; 0: i64, 1: i64, 2: i64, 3: i64, 4: i64, 5: i64, 6: i64, 7: i64, 8: i64),
        10 => tuple_case!(10, r; 0: i64, 1: i64, 2: i64, 3: i64, 4: i64, 5: i64, 6: i64, 7: i64, 8: i64, 9: i64),
        11 => tuple_case!(11, r; 0: i64, 1: i64, 2: i64, 3: i64, 4: i64, 5: i64, 6: i64, 7: i64, 8: i64, 9: i64, 10: i64),
        _ => tuple_case!(12, r; 0: i64, 1: i64, 2: i64, 3: i64, 4: i64, 5: i64, 6: i64, 7: i64, 8: i64, 9: i64, 10: i64, 11: i64),
    }
}

macro_rules! i32_of {
    ($idx:tt) => {
        i32
    };
}

/// extraction of a ValueTuple as a tuple of i32 of the given arity
macro_rules! hom_target {
    ($($idx:tt),+) => {{
        fn f(vt: ValueTuple) -> Vec<i32> {
            let t: ($(i32_of!($idx),)+) = FromValueTuple::from_value_tuple(vt);
            vec![$(t.$idx),+]
        }
        f as fn(ValueTuple) -> Vec<i32>
    }};
}

fn hom_targets() -> Vec<(usize, fn(ValueTuple) -> Vec<i32>)> {
    fn one(vt: ValueTuple) -> Vec<i32> {
        let t: i32 = FromValueTuple::from_value_tuple(vt);
        vec![t]
    }
    vec![
        (1, one as fn(ValueTuple) -> Vec<i32>),
        (2, hom_target!(0, 1)),
        (3, hom_target!(0, 1, 2)),
        (4, hom_target!(0, 1, 2, 3)),
        (5, hom_target!(0, 1, 2, 3, 4)),
        (6, hom_target!(0, 1, 2, 3, 4, 5)),
        (7, hom_target!(0, 1, 2, 3, 4, 5, 6)),
        (8, hom_target!(0, 1, 2, 3, 4, 5, 6, 7)),
        (9, hom_target!(0, 1, 2, 3, 4, 5, 6, 7, 8)),
        (10, hom_target!(0, 1, 2, 3, 4, 5, 6, 7, 8, 9)),
        (11, hom_target!(0, 1, 2, 3, 4, 5, 6, 7, 8, 9, 10)),
        (12, hom_target!(0, 1, 2, 3, 4, 5, 6, 7, 8, 9, 10, 11)),
    ]
}

/// (label, canonical shape?, items, tuple)
fn hom_sources() -> Vec<(String, bool, Vec<i32>, ValueTuple)> {
    let mut out: Vec<(String, bool, Vec<i32>, ValueTuple)> = vec![];
    let mut real = |n: usize, vt: ValueTuple| {
        out.push((format!("{n}-tuple"), true, (0..n as i32).map(|i| 100 + i).collect(), vt));
    };
    real(1, 100i32.into_value_tuple());
    real(2, (100i32, 101i32).into_value_tuple());
    real(3, (100i32, 101i32, 102i32).into_value_tuple());
    real(4, (100i32, 101i32, 102i32, 103i32).into_value_tuple());
    real(5, (100i32, 101i32, 102i32, 103i32, 104i32).into_value_tuple());
    real(6, (100i32, 101i32, 102i32, 103i32, 104i32, 105i32).into_value_tuple());
    real(7, (100i32, 101i32, 102i32, 103i32, 104i32, 105i32, 106i32).into_value_tuple());
    real(8, (100i32, 101i32, 102i32, 103i32, 104i32, 105i32, 106i32, 107i32).into_value_tuple());
    real(9, (100i32, 101i32, 102i32, 103i32, 104i32, 105i32, 106i32, 107i32, 108i32).into_value_tuple());
    real(10, (100i32, 101i32, 102i32, 103i32, 104i32, 105i32, 106i32, 107i32, 108i32, 109i32).into_value_tuple());
    real(11, (100i32, 101i32, 102i32, 103i32, 104i32, 105i32, 106i32, 107i32, 108i32, 109i32, 110i32).into_value_tuple());
    real(12, (100i32, 101i32, 102i32, 103i32, 104i32, 105i32, 106i32, 107i32, 108i32, 109i32, 110i32, 111i32).into_value_tuple());
    // hand-built shapes, including non-canonical ones (Many of length 0..3, 13)
    for k in 0..=13usize {
        let items: Vec<i32> = (0..k as i32).map(|i| 200 + i).collect();
        let vt = ValueTuple::Many(items.iter().map(|i| Value::from(*i)).collect());
        out.push((format!("Many({k})"), k >= 4 && k <= 12, items, vt));
    }
    out.push(("One".into(), true, vec![300], ValueTuple::One(300i32.into())));
    out.push(("Two".into(), true, vec![300, 301], ValueTuple::Two(300i32.into(), 301i32.into())));
    out.push(("Three".into(), true, vec![300, 301, 302], ValueTuple::Three(300i32.into(), 301i32.into(), 302i32.into())));
    out
}

fn tuples(cx: &mut Cx) {
    // random heterogeneous / homogeneous tuples of every arity
    let base = cx.next_phase();
    let per = cx.ctx.size(96_000, 4_800_000) / cx.ctx.nshards;
    let mut by_arity = [0u64; 13];
    for k in cx.per_shard(base, per) {
        let n = (k % 12) as usize + 1;
        let hom = (k / 12) % 3 == 2;
        let mut r = cx.ctx.rng("tuple", k);
        cx.rep.eval();
        let (res, shown, fp) = if hom { tuple_hom(n, &mut r) } else { tuple_het(n, &mut r) };
        match &res {
            Ok(v) if v.is_empty() => {}
            _ => cx.report(base + k, &format!("tuple/{n}"), res, &|| shown.clone()),
        }
        cx.nontrivial(mix(hash_str("tuple"), mix(fp, hom as u64)));
        by_arity[n] += 1;
        if k == 11 {
            cx.rep.sample(json!({"kind": "tuple", "arity": n, "value": shown}));
        }
    }
    for n in 1..=12 {
        cx.rep.count(&format!("tuple_arity/{n:02}"), by_arity[n]);
    }
    cx.rep.count("tuples_checked", by_arity.iter().sum());

    // arity matrix: a source of arity n extracted as arity m
    let base = cx.next_phase();
    if let Some((_, c)) = cx.ctx.replay {
        if c >> PHASE_SHIFT != base >> PHASE_SHIFT {
            return;
        }
    }
    let (srcs, tgts) = match guard(|| (hom_sources(), hom_targets())) {
        Ok(x) => x,
        Err(p) => {
            cx.rep.violation("R.panic", "-", format!("tuple sources: {}", panic_sig(&p)), json!({"panic": p}), cx.ctx.shard, base);
            return;
        }
    };
    let nt = tgts.len() as u64;
    let (mut cells, mut must_panic) = (0u64, 0u64);
    for i in cx.sharded(base, srcs.len() as u64 * nt) {
        let (label, canonical, items, vt) = &srcs[(i / nt) as usize];
        let (m, f) = tgts[(i % nt) as usize];
        cx.rep.eval();
        cells += 1;
        // arity and order of the source itself
        let got_items: Vec<Vec<u8>> = guard(|| vt.clone().into_iter().map(|v| enc_v(&v)).collect()).unwrap_or_default();
        let want_items: Vec<Vec<u8>> = items.iter().map(|i| enc_v(&Value::from(*i))).collect();
        if got_items != want_items {
            cx.rep.violation("R.tuple", "-", format!("{label}: into_iter loses arity or order"), json!({"items": items}), cx.ctx.shard, base + i);
        }
        let same_arity = items.len() == m;
        if !same_arity {
            must_panic += 1;
        }
        match guard(|| f(vt.clone())) {
            Ok(got) => {
                if !same_arity {
                    cx.rep.violation("R.tuple-arity", "-", format!("{label} extracted as {m}-tuple returns instead of panicking"),
                        json!({"items": items, "got": got}), cx.ctx.shard, base + i);
                } else if &got != items {
                    cx.rep.violation("R.tuple", "-", format!("{label} extracted as {m}-tuple changes elements"),
                        json!({"items": items, "got": got}), cx.ctx.shard, base + i);
                }
            }
            Err(p) => {
                if same_arity && *canonical {
                    cx.rep.violation("R.tuple", "-", format!("{label} extracted as {m}-tuple panics"),
                        json!({"items": items, "panic": p}), cx.ctx.shard, base + i);
                }
            }
        }
    }
    cx.rep.count("tuple_arity_cells", cells);
    cx.rep.count("tuple_arity_cells_must_panic", must_panic);
}

// ---------------------------------------------------------------------------
// as_null / dummy_value for every variant and ArrayType (hand-built values)
// ---------------------------------------------------------------------------

fn every_variant(r: &mut Rng) -> Vec<Value> {
    let mut vs: Vec<Value> = vec![];
    macro_rules! both {
        ($t:ty) => {
            vs.push(Value::from(<$t as Rt>::gen(r)));
            vs.push(Value::from(Option::<$t>::None));
        };
    }
    elem_types!(both);
    both!(u8);
    both!(pgvector::Vector);
    for ty in all_array_types() {
        vs.push(Value::Array(ty.clone(), None));
        vs.push(Value::Array(ty.clone(), Some(Box::new(vec![]))));
        // the element kind is irrelevant for as_null / dummy_value: use the scalars we have
        let elem = vs.iter().find(|v| variant_name(v) == array_name(&ty) && !is_null(v)).cloned();
        if let Some(e) = elem {
            vs.push(Value::Array(ty.clone(), Some(Box::new(vec![e.clone(), e.as_null(), e]))));
        }
    }
    vs
}

fn variants(cx: &mut Cx) {
    let base = cx.next_phase();
    if let Some((_, c)) = cx.ctx.replay {
        if c >> PHASE_SHIFT != base >> PHASE_SHIFT {
            return;
        }
    }
    let ctx = cx.ctx;
    let vs = match guard(|| every_variant(&mut ctx.rng_global("variants", 0))) {
        Ok(v) => v,
        Err(p) => {
            cx.rep.violation("R.panic", "-", format!("variant list: {}", panic_sig(&p)), json!({"panic": p}), ctx.shard, base);
            return;
        }
    };
    // coverage of the list itself (harness self-check)
    let covered: std::collections::BTreeSet<&str> = vs.iter().map(variant_name).collect();
    let covered_arr: std::collections::BTreeSet<&str> = vs.iter().filter_map(array_of).collect();
    if covered.len() != ALL_VARIANTS.len() || covered_arr.len() != all_array_types().len() {
        cx.rep.inconclusive("variant list does not cover every variant / ArrayType");
    }
    let mut done = 0;
    for i in cx.sharded(base, vs.len() as u64) {
        let v = &vs[i as usize];
        let label = match array_of(v) {
            Some(a) => format!("Array<{a}>{}", if is_null(v) { " NULL" } else { "" }),
            None => format!("{}{}", variant_name(v), if is_null(v) { " NULL" } else { "" }),
        };
        cx.rep.eval();
        let r = guard(|| {
            let mut out = vec![];
            let a = v.as_null();
            let d = v.dummy_value();
            if discriminant(&a) != discriminant(v) || variant_name(&a) != variant_name(v) {
                out.push(viol("R.as_null", format!("{label} -> as_null gives {}", variant_name(&a)), json!({"got": show_value(&a)})));
            }
            if array_of(&a) != array_of(v) {
                out.push(viol("R.as_null", format!("{label} -> as_null gives ArrayType {}", array_of(&a).unwrap_or("none")), json!({"got": show_value(&a)})));
            }
            if !is_null(&a) {
                out.push(viol("R.as_null", format!("{label} -> as_null is not NULL"), json!({"got": show_value(&a)})));
            }
            if discriminant(&d) != discriminant(v) || variant_name(&d) != variant_name(v) {
                out.push(viol("R.dummy", format!("{label} -> dummy_value gives {}", variant_name(&d)), json!({"got": show_value(&d)})));
            }
            if array_of(&d) != array_of(v) {
                out.push(viol("R.dummy", format!("{label} -> dummy_value gives ArrayType {}", array_of(&d).unwrap_or("none")), json!({"got": show_value(&d)})));
            }
            if is_null(&d) {
                out.push(viol("R.dummy", format!("{label} -> dummy_value is NULL"), json!({"got": show_value(&d)})));
            }
            out
        });
        cx.report(base + i, &label, r, &|| show_value(v));
        cx.rep.note("variants_as_null_dummy", label);
        done += 1;
    }
    cx.rep.count("as_null_dummy_values", done);
}

// ---------------------------------------------------------------------------
// Scalar streams
// ---------------------------------------------------------------------------

fn mantissas(bits: u32, extra: usize) -> Vec<u64> {
    let mask = (1u64 << bits) - 1;
    let mut m = vec![0, mask, 1 << (bits - 1), (1 << (bits - 1)) - 1, (1 << (bits - 1)) | 1, 1, 2, 3];
    for k in 2..bits - 1 {
        m.push(1 << k);
    }
    for k in 0..bits {
        m.push(!(1u64 << k) & mask);
    }
    let mut s = 0xC12u64;
    for _ in 0..extra {
        m.push(splitmix(&mut s) & mask);
    }
    m
}

fn scalars(cx: &mut Cx) {
    let ctx = cx.ctx;
    // exhaustive small domains
    stream::<bool>(cx, true, 2, |i| Some(i == 1));
    stream::<i8>(cx, true, 1 << 8, |i| Some(i as u8 as i8));
    stream::<u8>(cx, true, 1 << 8, |i| Some(i as u8));
    stream::<i16>(cx, true, 1 << 16, |i| Some(i as u16 as i16));
    stream::<u16>(cx, true, 1 << 16, |i| Some(i as u16));
    let chars = stream::<char>(cx, true, 0x11_0000, |i| char::from_u32(i as u32));
    cx.rep.count("exhaustive_chars", chars);
    if ctx.shard == 0 && ctx.replay.is_none() {
        cx.rep.exhaustive_parts.push("all values of bool, i8, u8, i16, u16 and all 1,112,064 char scalar values".into());
    }
    // 32/64-bit integers: boundaries come from `typed`, here the random bulk
    let per = ctx.size(1_000_000, 100_000_000) / ctx.nshards;
    let mut b = BlockRng::new(ctx, "i32");
    stream::<i32>(cx, false, per, |k| Some(shape1(b.at(k)) as i32));
    let mut b = BlockRng::new(ctx, "u32");
    stream::<u32>(cx, false, per, |k| Some(shape1(b.at(k)) as u32));
    let mut b = BlockRng::new(ctx, "i64");
    stream::<i64>(cx, false, per, |k| Some(shape1(b.at(k)) as i64));
    let mut b = BlockRng::new(ctx, "u64");
    stream::<u64>(cx, false, per, |k| Some(shape1(b.at(k))));

    // f32: every sign x exponent x 64 mantissas, then random bit patterns (quick) or all of them (thorough)
    let m32 = mantissas(23, 13);
    let n32 = m32.len() as u64;
    stream::<f32>(cx, true, 2 * 256 * n32, |i| {
        let (sign, exp, m) = (i & 1, (i >> 1) & 255, m32[(i >> 9) as usize]);
        Some(f32::from_bits(((sign << 31) | (exp << 23) | m) as u32))
    });
    if ctx.quick() {
        let per = (1u64 << 22) / ctx.nshards;
        let mut b = BlockRng::new(ctx, "f32");
        stream::<f32>(cx, false, per, |k| Some(f32::from_bits(b.at(k) as u32)));
    } else {
        stream::<f32>(cx, true, 1u64 << 32, |i| Some(f32::from_bits(i as u32)));
        if ctx.shard == 0 && ctx.replay.is_none() {
            cx.rep.exhaustive_parts.push("all 2^32 f32 bit patterns".into());
        }
    }
    if ctx.shard == 0 && ctx.replay.is_none() {
        cx.rep.exhaustive_parts.push(format!("f32: 2 signs x 256 exponents x {n32} mantissa patterns"));
    }

    // f64: every sign x exponent x mantissa pattern, then random bit patterns
    let m64 = mantissas(52, 9);
    let n64 = m64.len() as u64;
    stream::<f64>(cx, true, 2 * 2048 * n64, |i| {
        let (sign, exp, m) = (i & 1, (i >> 1) & 2047, m64[(i >> 12) as usize]);
        Some(f64::from_bits((sign << 63) | (exp << 52) | m))
    });
    let per = ctx.size(1_000_000, 100_000_000) / ctx.nshards;
    let mut b = BlockRng::new(ctx, "f64");
    stream::<f64>(cx, false, per, |k| Some(f64::from_bits(b.at(k))));
    if ctx.shard == 0 && ctx.replay.is_none() {
        cx.rep.exhaustive_parts.push(format!("f64: 2 signs x 2048 exponents x {n64} mantissa patterns"));
    }
}

pub fn check(ctx: &Ctx, rep: &mut Report) {
    let budget = (3_000_000 / ctx.nshards.max(1)) as usize;
    let mut cx = Cx { ctx, rep, phase: 0, budget, not_recorded: 0 };
    // NOTE: the order of the phases fixes the case numbering used by replays.
    matrix(&mut cx);
    tuples(&mut cx);
    variants(&mut cx);

    // generated values of every boxed / feature type (None, specials, random)
    typed::<String>(&mut cx, 40_000, 2_000_000);
    typed::<J>(&mut cx, 24_000, 1_200_000);
    typed::<chrono::DateTime<chrono::FixedOffset>>(&mut cx, 24_000, 1_200_000);
    typed::<bigdecimal::BigDecimal>(&mut cx, 24_000, 1_200_000);
    typed::<Vec<u8>>(&mut cx, 24_000, 1_200_000);
    typed::<chrono::NaiveDate>(&mut cx, 24_000, 1_200_000);
    typed::<chrono::NaiveTime>(&mut cx, 24_000, 1_200_000);
    typed::<chrono::NaiveDateTime>(&mut cx, 24_000, 1_200_000);
    typed::<chrono::DateTime<chrono::Utc>>(&mut cx, 24_000, 1_200_000);
    typed::<chrono::DateTime<chrono::Local>>(&mut cx, 16_000, 400_000);
    typed::<time::Date>(&mut cx, 24_000, 1_200_000);
    typed::<time::Time>(&mut cx, 24_000, 1_200_000);
    typed::<time::PrimitiveDateTime>(&mut cx, 24_000, 1_200_000);
    typed::<time::OffsetDateTime>(&mut cx, 24_000, 1_200_000);
    typed::<rust_decimal::Decimal>(&mut cx, 40_000, 2_000_000);
    typed::<uuid::Uuid>(&mut cx, 40_000, 2_000_000);
    typed::<uuid::fmt::Braced>(&mut cx, 8_000, 200_000);
    typed::<uuid::fmt::Hyphenated>(&mut cx, 8_000, 200_000);
    typed::<uuid::fmt::Simple>(&mut cx, 8_000, 200_000);
    typed::<uuid::fmt::Urn>(&mut cx, 8_000, 200_000);
    typed::<ipnetwork::IpNetwork>(&mut cx, 24_000, 1_200_000);
    typed::<mac_address::MacAddress>(&mut cx, 24_000, 1_200_000);
    typed::<pgvector::Vector>(&mut cx, 16_000, 400_000);
    borrowed(&mut cx);

    // arrays of every element type
    macro_rules! arrays {
        ($t:ty) => {
            typed::<Vec<$t>>(&mut cx, 6_400, 240_000);
        };
    }
    elem_types!(arrays);

    // scalar types: None + boundaries + a little random through the generic path ...
    typed::<bool>(&mut cx, 800, 8_000);
    typed::<i8>(&mut cx, 800, 8_000);
    typed::<u8>(&mut cx, 800, 8_000);
    typed::<i16>(&mut cx, 800, 8_000);
    typed::<u16>(&mut cx, 800, 8_000);
    typed::<char>(&mut cx, 8_000, 80_000);
    typed::<i32>(&mut cx, 8_000, 80_000);
    typed::<u32>(&mut cx, 8_000, 80_000);
    typed::<i64>(&mut cx, 8_000, 80_000);
    typed::<u64>(&mut cx, 8_000, 80_000);
    typed::<f32>(&mut cx, 8_000, 80_000);
    typed::<f64>(&mut cx, 8_000, 80_000);
    // ... then the exhaustive and bulk streams
    scalars(&mut cx);

    let skipped = cx.not_recorded;
    if skipped > 0 {
        cx.rep.count("nontrivial_beyond_per_shard_budget", skipped);
    }
}
