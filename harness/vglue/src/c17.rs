//! C17 — escape_string / unescape_string are inverse on every backend.

use crate::util::*;
use serde_json::json;
use vcore::prng::hash_str;
use vcore::report::Report;
use vcore::run::{guard, panic_sig, Ctx};

const ALPHA: [char; 18] = [
    '\\', '\'', '"', '\0', '\x08', '\t', '\n', '\r', '\x1a', '0', 'b', 't', 'z', 'n', 'r', 'a', 'é', '%',
];

/// escape then unescape, with the backend reached in one of the ways a caller can hold it: behind
/// `&dyn QueryBuilder`, as the struct itself, boxed, behind a double reference, or as a boxed trait object
/// (method-call syntax throughout: whatever impl the compiler resolves for that receiver is the one checked)
fn through(d: Dialect, how: u64, s: &str) -> (String, String) {
    use sea_query::{EscapeBuilder, MysqlQueryBuilder, PostgresQueryBuilder, QueryBuilder, SqliteQueryBuilder};
    macro_rules! both {
        ($b:expr) => {{
            let b = $b;
            let e = b.escape_string(s);
            let u = b.unescape_string(&e);
            (e, u)
        }};
    }
    macro_rules! ways {
        ($t:expr) => {
            match how {
                1 => both!($t),
                2 => both!(Box::new($t)),
                3 => both!(&&$t),
                _ => {
                    let boxed: Box<dyn QueryBuilder> = Box::new($t);
                    both!(boxed)
                }
            }
        };
    }
    if how == 0 {
        return both!(qb(d));
    }
    match d {
        Dialect::Mysql => ways!(MysqlQueryBuilder),
        Dialect::Postgres => ways!(PostgresQueryBuilder),
        Dialect::Sqlite => ways!(SqliteQueryBuilder),
    }
}

fn one(ctx: &Ctx, rep: &mut Report, n: u64, s: &str, exhaustive: bool) {
    for d in Dialect::ALL {
        rep.eval();
        let how = (n / 3 + d as u64) % 5;
        let r = guard(|| through(d, how, s));
        match r {
            Ok((e, u)) => {
                if u != s {
                    // signature: first differing char class pair
                    let sig = first_diff_sig(s, &u);
                    rep.violation(
                        "R.inverse",
                        d.name(),
                        sig,
                        json!({"input": show(s), "escaped": show(&e), "unescaped": show(&u)}),
                        ctx.shard,
                        n,
                    );
                }
                if e != s {
                    rep.count("inputs_changed_by_escape", 1);
                    rep.nontrivial(hash_str(s) ^ (d as u64).wrapping_mul(0x9E37));
                }
                if !exhaustive && n % 4001 == 0 || (exhaustive && n % 50021 == 7) {
                    rep.sample(json!({"backend": d.name(), "input": show(s), "escaped": show(&e)}));
                }
            }
            Err(p) => rep.violation(
                "R.panic",
                d.name(),
                panic_sig(&p),
                json!({"input": show(s), "panic": p}),
                ctx.shard,
                n,
            ),
        }
    }
}

fn first_diff_sig(a: &str, b: &str) -> String {
    let ac: Vec<char> = a.chars().collect();
    let bc: Vec<char> = b.chars().collect();
    let mut i = 0;
    while i < ac.len() && i < bc.len() && ac[i] == bc[i] {
        i += 1;
    }
    let l = ac.get(i).map(|c| char_class(*c)).unwrap_or("END".into());
    let r = bc.get(i).map(|c| char_class(*c)).unwrap_or("END".into());
    let prev = if i > 0 { char_class(ac[i - 1]) } else { "START".into() };
    format!("after {prev}: {l} -> {r}")
}

pub fn check(ctx: &Ctx, rep: &mut Report) {
    let max_len = ctx.size(4, 6) as usize;
    let total = count_strings(ALPHA.len(), max_len);
    if ctx.replay.is_none() || ctx.replay.unwrap().1 < total {
        let mut n = ctx.shard;
        if let Some((_, c)) = ctx.replay {
            n = c;
        }
        while n < total {
            let s = nth_string(&ALPHA, n);
            one(ctx, rep, n, &s, true);
            if ctx.replay.is_some() {
                return;
            }
            n += ctx.nshards;
        }
        rep.count("exhaustive_strings", (total + ctx.nshards - 1 - ctx.shard) / ctx.nshards);
        if ctx.shard == 0 {
            rep.exhaustive_parts.push(format!(
                "all strings over the 18-symbol escape alphabet up to length {max_len} ({total} strings) x 3 backends"
            ));
        }
    }
    // random unicode strings
    let nrand = ctx.size(1_000_000, 60_000_000) / ctx.nshards;
    for k in 0..nrand {
        let n = total + k;
        if !ctx.wants(n) {
            continue;
        }
        let mut rng = ctx.rng("rand", k);
        let s = rng.string_from(&ALPHA, 24, true);
        one(ctx, rep, n, &s, false);
        rep.count("random_strings", 1);
    }
}
