//! Reference renderer: an independently written, fully explicit rendering of a
//! statement spec for each dialect (every operand parenthesised, every clause
//! spelled out in grammar order). In parameter mode it also yields the values
//! in reading order — the expected `Values` of a build.

use crate::spec::*;
use crate::util::{qb, Dialect};
use crate::xspec::{op_name, X};
use sea_query::Value;

pub struct Ref {
    pub d: Dialect,
    pub param: bool,
    pub vals: Vec<Value>,
}

impl Ref {
    pub fn new(d: Dialect, param: bool) -> Ref {
        Ref { d, param, vals: vec![] }
    }
    pub fn id(&self, name: &str) -> String {
        match self.d {
            Dialect::Mysql => format!("`{}`", name.replace('`', "``")),
            _ => format!("\"{}\"", name.replace('"', "\"\"")),
        }
    }
    /// inline literal; written independently for the core types
    pub fn lit(&self, v: &Value) -> String {
        let strlit = |s: &str| -> String {
            match self.d {
                Dialect::Sqlite => format!("'{}'", s.replace('\'', "''")),
                Dialect::Mysql => format!("'{}'", s.replace('\\', "\\\\").replace('\'', "''")),
                Dialect::Postgres => {
                    if s.contains('\\') {
                        format!("E'{}'", s.replace('\\', "\\\\").replace('\'', "''"))
                    } else {
                        format!("'{}'", s.replace('\'', "''"))
                    }
                }
            }
        };
        match v {
            Value::Bool(Some(b)) => if *b { "TRUE" } else { "FALSE" }.into(),
            Value::TinyInt(Some(i)) => i.to_string(),
            Value::SmallInt(Some(i)) => i.to_string(),
            Value::Int(Some(i)) => i.to_string(),
            Value::BigInt(Some(i)) => i.to_string(),
            Value::TinyUnsigned(Some(i)) => i.to_string(),
            Value::SmallUnsigned(Some(i)) => i.to_string(),
            Value::Unsigned(Some(i)) => i.to_string(),
            Value::BigUnsigned(Some(i)) => i.to_string(),
            Value::Double(Some(f)) => format!("{f}"),
            Value::Float(Some(f)) => format!("{f}"),
            Value::String(Some(s)) => strlit(s),
            Value::Char(Some(c)) => strlit(&c.to_string()),
            Value::Bytes(Some(b)) => {
                let hex: String = b.iter().map(|x| format!("{x:02X}")).collect();
                match self.d {
                    Dialect::Postgres => format!("'\\x{hex}'"),
                    _ => format!("x'{hex}'"),
                }
            }
            // the absent value of any type is NULL
            v if format!("{v:?}").ends_with("None)") => "NULL".into(),
            // temporal values: the components read through the accessor APIs, spelled in ISO order
            Value::ChronoDate(Some(v)) => {
                use chrono::Datelike;
                format!("'{:04}-{:02}-{:02}'", v.year(), v.month(), v.day())
            }
            Value::ChronoTime(Some(v)) => {
                use chrono::Timelike;
                format!("'{:02}:{:02}:{:02}'", v.hour(), v.minute(), v.second())
            }
            Value::ChronoDateTime(Some(v)) => format!("'{}'", chrono_naive(v)),
            Value::ChronoDateTimeUtc(Some(v)) => format!("'{} +00:00'", chrono_naive(&v.naive_utc())),
            Value::ChronoDateTimeLocal(Some(v)) => {
                use chrono::Offset;
                format!("'{} {}'", chrono_naive(&v.naive_local()), offset_text(v.offset().fix().local_minus_utc()))
            }
            Value::ChronoDateTimeWithTimeZone(Some(v)) => {
                format!("'{} {}'", chrono_naive(&v.naive_local()), offset_text(v.offset().local_minus_utc()))
            }
            Value::TimeDate(Some(v)) => format!("'{:04}-{:02}-{:02}'", v.year(), v.month() as u8, v.day()),
            Value::TimeTime(Some(v)) => format!("'{}'", time_time(v)),
            Value::TimeDateTime(Some(v)) => format!("'{:04}-{:02}-{:02} {}'", v.year(), v.month() as u8, v.day(), time_time(&v.time())),
            Value::TimeDateTimeWithTimeZone(Some(v)) => format!(
                "'{:04}-{:02}-{:02} {} {}'",
                v.year(),
                v.month() as u8,
                v.day(),
                time_time(&v.time()),
                offset_text(v.offset().whole_seconds())
            ),
            // an array value: the empty array as the constant '{}', else an ARRAY constructor of its elements
            Value::Array(_, Some(items)) => {
                if items.is_empty() {
                    "'{}'".into()
                } else {
                    format!("ARRAY [{}]", items.iter().map(|i| self.lit(i)).collect::<Vec<_>>().join(","))
                }
            }
            // a decimal is written with the scale it has
            Value::Decimal(Some(v)) => {
                let (m, sc) = (v.mantissa(), v.scale() as usize);
                let digits = m.unsigned_abs().to_string();
                let digits = if digits.len() <= sc { format!("{}{digits}", "0".repeat(sc + 1 - digits.len())) } else { digits };
                let (int, frac) = digits.split_at(digits.len() - sc);
                format!("{}{int}{}{frac}", if v.is_sign_negative() { "-" } else { "" }, if sc > 0 { "." } else { "" })
            }
            Value::Uuid(Some(u)) => {
                let h = format!("{:032x}", u.as_u128());
                format!("'{}-{}-{}-{}-{}'", &h[0..8], &h[8..12], &h[12..16], &h[16..20], &h[20..32])
            }
            // a JSON document is written as the string literal of its serialised text
            Value::Json(Some(j)) => strlit(&j.to_string()),
            // other optional types: text-level only; their spelling is C03's business
            other => qb(self.d).value_to_string(other),
        }
    }
    pub fn value(&mut self, v: &Value) -> String {
        if self.param {
            self.vals.push(v.clone());
            match self.d {
                Dialect::Postgres => format!("${}", self.vals.len()),
                _ => "?".into(),
            }
        } else {
            self.lit(v)
        }
    }
}

fn chrono_naive(v: &chrono::NaiveDateTime) -> String {
    use chrono::{Datelike, Timelike};
    format!("{:04}-{:02}-{:02} {:02}:{:02}:{:02}", v.year(), v.month(), v.day(), v.hour(), v.minute(), v.second())
}

fn offset_text(seconds_east: i32) -> String {
    let a = seconds_east.abs();
    format!("{}{:02}:{:02}", if seconds_east < 0 { '-' } else { '+' }, a / 3600, a % 3600 / 60)
}

fn time_time(v: &time::Time) -> String {
    format!("{:02}:{:02}:{:02}.{:06}", v.hour(), v.minute(), v.second(), v.microsecond())
}

pub fn func_name(d: Dialect, name: &str) -> String {
    match (d, name) {
        (Dialect::Postgres, "IFNULL") => "COALESCE".into(),
        (Dialect::Sqlite, "GREATEST") => "MAX".into(),
        (Dialect::Sqlite, "LEAST") => "MIN".into(),
        (Dialect::Sqlite, "CHAR_LENGTH") => "LENGTH".into(),
        (Dialect::Mysql, "RANDOM") => "RAND".into(),
        (_, n) => n.to_string(),
    }
}

pub fn x(r: &mut Ref, e: &X) -> String {
    match e {
        X::Col(c) => r.id(c),
        X::QCol(t, c) => format!("{}.{}", r.id(t), r.id(c)),
        X::Int(i) => r.value(&Value::BigInt(Some(*i))),
        X::Text(s) => r.value(&Value::from(s.as_str())),
        X::Val(v) => r.value(v),
        X::Null => "NULL".into(),
        X::Bool(v) => if *v { "TRUE" } else { "FALSE" }.into(),
        X::Star => "*".into(),
        X::QStar(t) => format!("{}.*", r.id(t)),
        X::Cust(w) => w.clone(),
        X::Not(e) => format!("(NOT ({}))", x(r, e)),
        X::Bin(l, op, rr) => {
            let a = x(r, l);
            let b = x(r, rr);
            format!("(({a}) {} ({b}))", op_name(r.d, op))
        }
        X::Between(e, not, lo, hi) => {
            let a = x(r, e);
            let b = x(r, lo);
            let c = x(r, hi);
            format!("(({a}) {}BETWEEN ({b}) AND ({c}))", if *not { "NOT " } else { "" })
        }
        X::Like(e, not, pat, esc) => {
            let a = x(r, e);
            let b = x(r, pat);
            let esc = esc.map(|c| format!(" ESCAPE {}", r.lit(&Value::Char(Some(c))))).unwrap_or_default();
            format!("(({a}) {}LIKE ({b}){esc})", if *not { "NOT " } else { "" })
        }
        X::ILike(e, not, pat, esc) => {
            let a = x(r, e);
            let b = x(r, pat);
            let esc = esc.map(|c| format!(" ESCAPE {}", r.lit(&Value::Char(Some(c))))).unwrap_or_default();
            format!("(({a}) {}ILIKE ({b}){esc})", if *not { "NOT " } else { "" })
        }
        X::In(e, not, list) => {
            if list.is_empty() {
                // documented encoding: 1 = 2 / 1 = 1 (two bound values)
                let a = r.value(&Value::Int(Some(1)));
                let b = r.value(&Value::Int(Some(if *not { 1 } else { 2 })));
                format!("({a} = {b})")
            } else {
                let a = x(r, e);
                let items: Vec<String> = list.iter().map(|i| format!("({})", x(r, i))).collect();
                format!("(({a}) {}IN ({}))", if *not { "NOT " } else { "" }, items.join(", "))
            }
        }
        X::IsNull(e, not) => format!("(({}) IS {}NULL)", x(r, e), if *not { "NOT " } else { "" }),
        X::Func(name, args) => {
            if *name == "COUNT_DISTINCT" {
                return format!("COUNT(DISTINCT ({}))", x(r, &args[0]));
            }
            if *name == "ARRAY_AGG_DISTINCT" {
                return format!("ARRAY_AGG(DISTINCT ({}))", x(r, &args[0]));
            }
            let a: Vec<String> = args.iter().map(|i| x(r, i)).collect();
            format!("{}({})", func_name(r.d, name), a.join(", "))
        }
        X::Cast(e, ty) => format!("CAST(({}) AS {ty})", x(r, e)),
        X::Case(whens, els) => {
            let mut s = String::from("(CASE");
            for (w, t) in whens {
                let a = x(r, w);
                let b = x(r, t);
                s.push_str(&format!(" WHEN ({a}) THEN ({b})"));
            }
            if let Some(e) = els {
                s.push_str(&format!(" ELSE ({})", x(r, e)));
            }
            s.push_str(" END)");
            s
        }
        X::Tuple(v) => {
            let a: Vec<String> = v.iter().map(|i| x(r, i)).collect();
            format!("({})", a.join(", "))
        }
        X::Exists(not, s) => {
            let q = sel(r, s);
            if *not {
                format!("(NOT (EXISTS ({q})))")
            } else {
                format!("(EXISTS ({q}))")
            }
        }
        X::InSub(e, not, s) => {
            let a = x(r, e);
            let q = sel(r, s);
            format!("(({a}) {}IN ({q}))", if *not { "NOT " } else { "" })
        }
        X::Scalar(s) => format!("({})", sel(r, s)),
        X::SubOp(e, op, kind, s) => {
            let a = x(r, e);
            let q = sel(r, s);
            format!("(({a}) {} {}({q}))", crate::xspec::op_name(r.d, op), ["ANY", "SOME", "ALL"][*kind as usize % 3])
        }
        X::Kw(k) => k.to_string(),
        X::InTuples(cols, rows) => {
            let l: Vec<String> = cols.iter().map(|c| x(r, c)).collect();
            let rs: Vec<String> = rows
                .iter()
                .map(|row| {
                    let cells: Vec<String> = row.iter().map(|v| r.value(v)).collect();
                    format!("({})", cells.join(", "))
                })
                .collect();
            format!("(({}) IN ({}))", l.join(", "), rs.join(", "))
        }
        X::CustWith(pieces, args, _) => {
            // positional (`?`) templates take the arguments in order of appearance
            let mut out = String::new();
            for p in pieces {
                match p {
                    crate::xspec::TplPiece::Text(t) => out.push_str(t),
                    crate::xspec::TplPiece::Arg(i) => {
                        let a = x(r, &args[*i]);
                        out.push_str(&format!("({a})"));
                    }
                }
            }
            out
        }
        X::AsEnum(t, e) => {
            let a = x(r, e);
            if r.d == Dialect::Postgres {
                if let Some(base) = t.strip_suffix("[]") {
                    format!("CAST(({a}) AS {}[])", r.id(base))
                } else {
                    format!("CAST(({a}) AS {})", r.id(t))
                }
            } else {
                a
            }
        }
    }
}

fn conj(r: &mut Ref, conds: &[X]) -> String {
    let parts: Vec<String> = conds.iter().map(|c| format!("({})", x(r, c))).collect();
    if parts.len() == 1 {
        parts.into_iter().next().unwrap()
    } else {
        format!("({})", parts.join(" AND "))
    }
}

pub fn from(r: &mut Ref, f: &From_) -> String {
    match f {
        From_::Table(t, a) => match a {
            Some(a) => format!("{} AS {}", r.id(t), r.id(a)),
            None => r.id(t),
        },
        From_::SchemaTable(s, t, a) => match a {
            Some(a) => format!("{}.{} AS {}", r.id(s), r.id(t), r.id(a)),
            None => format!("{}.{}", r.id(s), r.id(t)),
        },
        From_::Sub(s, a) => {
            let q = sel(r, s);
            format!("({q}) AS {}", r.id(a))
        }
        From_::Func(name, args, a) => {
            let xs: Vec<String> = args.iter().map(|e| x(r, e)).collect();
            format!("{name}({}) AS {}", xs.join(", "), r.id(a))
        }
        From_::Values(rows, a) => {
            let rs: Vec<String> = rows
                .iter()
                .map(|row| {
                    let cells: Vec<String> = row.iter().map(|v| r.value(v)).collect();
                    format!("{}({})", if r.d == Dialect::Mysql { "ROW" } else { "" }, cells.join(", "))
                })
                .collect();
            format!("(VALUES {}) AS {}", rs.join(", "), r.id(a))
        }
    }
}

pub fn order(r: &mut Ref, o: &Ord_) -> String {
    let mut out = String::new();
    if r.d == Dialect::Mysql {
        if let Some(nf) = o.nulls_first {
            // MySQL has no NULLS FIRST/LAST: `e IS NULL` is 1 for NULLs, so ASC puts NULLs last
            let e = x(r, &o.expr);
            out.push_str(&format!("({e}) IS NULL {}, ", if nf { "DESC" } else { "ASC" }));
        }
    }
    match &o.dir {
        Dir::Asc | Dir::Desc => {
            let e = x(r, &o.expr);
            out.push_str(&format!("({e}) {}", if o.dir == Dir::Asc { "ASC" } else { "DESC" }));
        }
        Dir::Field(vals) => {
            out.push_str("CASE");
            for (i, v) in vals.iter().enumerate() {
                let e = x(r, &o.expr);
                out.push_str(&format!(" WHEN ({e}) = {} THEN {i}", r.lit(v)));
            }
            out.push_str(&format!(" ELSE {} END", vals.len()));
        }
    }
    if r.d != Dialect::Mysql {
        if let Some(nf) = o.nulls_first {
            out.push_str(if nf { " NULLS FIRST" } else { " NULLS LAST" });
        }
    }
    out
}

fn bound(r: &mut Ref, b: &FrameBound) -> String {
    match b {
        FrameBound::UnboundedPreceding => "UNBOUNDED PRECEDING".into(),
        FrameBound::Preceding(n) => format!("{} PRECEDING", r.value(&Value::Unsigned(Some(*n)))),
        FrameBound::CurrentRow => "CURRENT ROW".into(),
        FrameBound::Following(n) => format!("{} FOLLOWING", r.value(&Value::Unsigned(Some(*n)))),
        FrameBound::UnboundedFollowing => "UNBOUNDED FOLLOWING".into(),
    }
}

pub fn window(r: &mut Ref, w: &Win) -> String {
    let mut parts = vec![];
    if !w.partition.is_empty() {
        let p: Vec<String> = w.partition.iter().map(|e| format!("({})", x(r, e))).collect();
        parts.push(format!("PARTITION BY {}", p.join(", ")));
    }
    if !w.order.is_empty() {
        let o: Vec<String> = w.order.iter().map(|o| order(r, o)).collect();
        parts.push(format!("ORDER BY {}", o.join(", ")));
    }
    if let Some((rows, s, e)) = &w.frame {
        let kw = if *rows { "ROWS" } else { "RANGE" };
        let a = bound(r, s);
        parts.push(match e {
            Some(e) => {
                let b = bound(r, e);
                format!("{kw} BETWEEN {a} AND {b}")
            }
            None => format!("{kw} {a}"),
        });
    }
    parts.join(" ")
}

pub fn with(r: &mut Ref, w: &With) -> String {
    let mut s = String::from("WITH ");
    if w.recursive {
        s.push_str("RECURSIVE ");
    }
    let ctes: Vec<String> = w
        .ctes
        .iter()
        .map(|c| {
            let mut t = r.id(&c.name);
            // `from_select`: the documented inference — every select item named (alias, or a column: its name,
            // `table_column` when qualified) gives the column list, otherwise there is none
            let inferred: Vec<String> = if c.infer {
                match &*c.body {
                    CteBody::Sel(q) => q
                        .items
                        .iter()
                        .map(|it| match (&it.alias, &it.expr) {
                            (Some(a), _) => Some(a.clone()),
                            (None, X::Col(c)) => Some(c.to_string()),
                            (None, X::QCol(t, c)) => Some(format!("{t}_{c}")),
                            _ => None,
                        })
                        .collect::<Option<Vec<String>>>()
                        .unwrap_or_default(),
                    _ => vec![],
                }
            } else {
                vec![]
            };
            let cols_src = if c.infer { &inferred } else { &c.cols };
            if !cols_src.is_empty() {
                let cols: Vec<String> = cols_src.iter().map(|x| r.id(x)).collect();
                t.push_str(&format!(" ({})", cols.join(", ")));
            }
            t.push_str(" AS ");
            if r.d != Dialect::Mysql {
                match c.materialized {
                    Some(true) => t.push_str("MATERIALIZED "),
                    Some(false) => t.push_str("NOT MATERIALIZED "),
                    None => {}
                }
            }
            let body = match &*c.body {
                CteBody::Sel(q) => sel(r, q),
                CteBody::Ins(q) => ins(r, q),
                CteBody::Upd(q) => upd(r, q),
                CteBody::Del(q) => del(r, q),
            };
            t.push_str(&format!("({body})"));
            t
        })
        .collect();
    s.push_str(&ctes.join(", "));
    s.push(' ');
    if w.recursive && r.d == Dialect::Postgres {
        if let Some((breadth, by, set)) = &w.search {
            s.push_str(&format!(
                "SEARCH {} FIRST BY {} SET {} ",
                if *breadth { "BREADTH" } else { "DEPTH" },
                r.id(by),
                r.id(set)
            ));
        }
        if let Some((col, set, using)) = &w.cycle {
            s.push_str(&format!("CYCLE {} SET {} USING {} ", r.id(col), r.id(set), r.id(using)));
        }
    }
    s
}

pub fn sel(r: &mut Ref, s: &Sel) -> String {
    let mut o = String::new();
    if let Some(w) = &s.with {
        o.push_str(&with(r, w));
    }
    o.push_str("SELECT ");
    match &s.distinct {
        Some(Distinct::All) => o.push_str("ALL "),
        Some(Distinct::Distinct) => o.push_str("DISTINCT "),
        Some(Distinct::DistinctRow) => {
            if r.d == Dialect::Mysql {
                o.push_str("DISTINCTROW ")
            }
        }
        Some(Distinct::On(cols)) => {
            if r.d == Dialect::Postgres {
                let c: Vec<String> = cols.iter().map(|(t, c)| format!("{}.{}", r.id(t), r.id(c))).collect();
                o.push_str(&format!("DISTINCT ON ({}) ", c.join(", ")));
            }
        }
        None => {}
    }
    let items: Vec<String> = s
        .items
        .iter()
        .map(|it| {
            let mut t = x(r, &it.expr);
            match &it.window {
                Some(WinRef::Inline(w)) => t.push_str(&format!(" OVER ({})", window(r, w))),
                Some(WinRef::Named(n)) => t.push_str(&format!(" OVER {}", r.id(n))),
                None => {}
            }
            if let Some(a) = &it.alias {
                t.push_str(&format!(" AS {}", r.id(a)));
            }
            t
        })
        .collect();
    o.push_str(&items.join(", "));
    if !s.from.is_empty() {
        let fs: Vec<String> = s.from.iter().map(|f| from(r, f)).collect();
        o.push_str(&format!(" FROM {}", fs.join(", ")));
        if r.d == Dialect::Mysql {
            for (kind, scope, ix) in &s.index_hints {
                o.push_str(&format!(
                    " {} INDEX {}({})",
                    ["USE", "IGNORE", "FORCE"][*kind as usize],
                    ["", "FOR JOIN ", "FOR ORDER BY ", "FOR GROUP BY "][*scope as usize],
                    r.id(ix)
                ));
            }
        }
        if r.d == Dialect::Postgres {
            if let Some((system, pct, rep)) = &s.sample {
                o.push_str(&format!(" TABLESAMPLE {} ({pct})", if *system { "SYSTEM" } else { "BERNOULLI" }));
                if let Some(rp) = rep {
                    o.push_str(&format!(" REPEATABLE ({rp})"));
                }
            }
        }
    }
    for j in &s.joins {
        let kw = match j.kind {
            JoinKind::Join => "JOIN",
            JoinKind::Inner => "INNER JOIN",
            JoinKind::Left => "LEFT JOIN",
            JoinKind::Right => "RIGHT JOIN",
            JoinKind::Full => "FULL OUTER JOIN",
            JoinKind::Cross => "CROSS JOIN",
        };
        let f = from(r, &j.from);
        o.push_str(&format!(" {kw} {}{f}", if j.lateral { "LATERAL " } else { "" }));
        if !j.on.is_empty() {
            o.push_str(&format!(" ON {}", conj(r, &j.on)));
        } else if !(r.d == Dialect::Postgres && j.kind == JoinKind::Cross) {
            // every join built through the API carries a condition: an empty conjunction is TRUE
            // (PostgreSQL's CROSS JOIN takes none: listed finding KF-C08-postgres-cross-join-on)
            o.push_str(" ON TRUE");
        }
    }
    if !s.wheres.is_empty() {
        o.push_str(&format!(" WHERE {}", conj(r, &s.wheres)));
    }
    if !s.groups.is_empty() {
        let g: Vec<String> = s.groups.iter().map(|e| format!("({})", x(r, e))).collect();
        o.push_str(&format!(" GROUP BY {}", g.join(", ")));
    }
    if !s.havings.is_empty() {
        o.push_str(&format!(" HAVING {}", conj(r, &s.havings)));
    }
    if let Some((name, w)) = &s.window {
        o.push_str(&format!(" WINDOW {} AS ({})", r.id(name), window(r, w)));
    }
    for (op, q) in &s.unions {
        let kw = match op {
            SetOp::Union => "UNION",
            SetOp::UnionAll => "UNION ALL",
            SetOp::Intersect => "INTERSECT",
            SetOp::Except => "EXCEPT",
        };
        let inner = sel(r, q);
        if r.d == Dialect::Sqlite {
            o.push_str(&format!(" {kw} {inner}"));
        } else {
            o.push_str(&format!(" {kw} ({inner})"));
        }
    }
    if !s.orders.is_empty() {
        let os: Vec<String> = s.orders.iter().map(|x| order(r, x)).collect();
        o.push_str(&format!(" ORDER BY {}", os.join(", ")));
    }
    if let Some(l) = s.limit {
        o.push_str(&format!(" LIMIT {}", r.value(&Value::BigUnsigned(Some(l)))));
    }
    if let Some(l) = s.offset {
        o.push_str(&format!(" OFFSET {}", r.value(&Value::BigUnsigned(Some(l)))));
    }
    if r.d != Dialect::Sqlite {
        if let Some(l) = &s.lock {
            o.push_str(match l.kind {
                LockKind::Update => " FOR UPDATE",
                LockKind::Share => " FOR SHARE",
                LockKind::NoKeyUpdate => " FOR NO KEY UPDATE",
                LockKind::KeyShare => " FOR KEY SHARE",
            });
            if !l.of.is_empty() {
                let t: Vec<String> = l.of.iter().map(|x| r.id(x)).collect();
                o.push_str(&format!(" OF {}", t.join(", ")));
            }
            match l.nowait {
                Some(true) => o.push_str(" NOWAIT"),
                Some(false) => o.push_str(" SKIP LOCKED"),
                None => {}
            }
        }
    }
    o
}

fn returning(r: &mut Ref, ret: &Option<Returning>) -> String {
    if r.d == Dialect::Mysql {
        return String::new();
    }
    match ret {
        None => String::new(),
        Some(Returning::All) => " RETURNING *".into(),
        Some(Returning::Cols(c)) => {
            let c: Vec<String> = c.iter().map(|x| r.id(x)).collect();
            format!(" RETURNING {}", c.join(", "))
        }
        Some(Returning::Exprs(e)) => {
            let c: Vec<String> = e.iter().map(|e| x(r, e)).collect();
            format!(" RETURNING {}", c.join(", "))
        }
    }
}

pub fn ins(r: &mut Ref, s: &Ins) -> String {
    let mut o = String::new();
    if let Some(w) = &s.with {
        o.push_str(&with(r, w));
    }
    o.push_str(if s.replace { "REPLACE" } else { "INSERT" });
    o.push_str(&format!(" INTO {} ", r.id(&s.table)));
    match &s.source {
        InsSource::Default(n) if s.cols.is_empty() => match r.d {
            Dialect::Sqlite => o.push_str("DEFAULT VALUES"),
            Dialect::Mysql => {
                o.push_str("VALUES ");
                o.push_str(&vec!["()"; *n as usize].join(", "));
            }
            Dialect::Postgres => {
                o.push_str("VALUES ");
                o.push_str(&vec!["(DEFAULT)"; *n as usize].join(", "));
            }
        },
        src => {
            let cols: Vec<String> = s.cols.iter().map(|c| r.id(c)).collect();
            o.push_str(&format!("({})", cols.join(", ")));
            match src {
                InsSource::Values(rows) => {
                    let rs: Vec<String> = rows
                        .iter()
                        .map(|row| {
                            let cells: Vec<String> = row.iter().map(|c| x(r, c)).collect();
                            format!("({})", cells.join(", "))
                        })
                        .collect();
                    o.push_str(&format!(" VALUES {}", rs.join(", ")));
                }
                InsSource::Select(q) => {
                    let q = sel(r, q);
                    o.push_str(&format!(" {q}"));
                }
                InsSource::Default(_) => {}
            }
        }
    }
    if let Some(c) = &s.conflict {
        if r.d == Dialect::Mysql {
            o.push_str(" ON DUPLICATE KEY");
            match &c.action {
                Some(ConflictAction::Nothing) => o.push_str(" IGNORE"),
                Some(ConflictAction::NothingOn(keys)) => {
                    let k: Vec<String> = keys.iter().map(|k| format!("{} = {}", r.id(k), r.id(k))).collect();
                    o.push_str(&format!(" UPDATE {}", k.join(", ")));
                }
                Some(ConflictAction::UpdateCols(cols)) => {
                    let k: Vec<String> = cols.iter().map(|k| format!("{} = VALUES({})", r.id(k), r.id(k))).collect();
                    o.push_str(&format!(" UPDATE {}", k.join(", ")));
                }
                Some(ConflictAction::UpdateExprs(es)) => {
                    let k: Vec<String> = es.iter().map(|(k, e)| format!("{} = {}", r.id(k), x(r, e))).collect();
                    o.push_str(&format!(" UPDATE {}", k.join(", ")));
                }
                None => {}
            }
        } else {
            o.push_str(" ON CONFLICT ");
            let mut targets: Vec<String> = c.target_cols.iter().map(|k| r.id(k)).collect();
            for e in &c.target_exprs {
                targets.push(x(r, e));
            }
            if !targets.is_empty() {
                o.push_str(&format!("({})", targets.join(", ")));
            }
            if !c.target_where.is_empty() {
                o.push_str(&format!(" WHERE {}", conj(r, &c.target_where)));
            }
            match &c.action {
                Some(ConflictAction::Nothing) | Some(ConflictAction::NothingOn(_)) => o.push_str(" DO NOTHING"),
                Some(ConflictAction::UpdateCols(cols)) => {
                    let k: Vec<String> = cols
                        .iter()
                        .map(|k| format!("{} = {}.{}", r.id(k), r.id("excluded"), r.id(k)))
                        .collect();
                    o.push_str(&format!(" DO UPDATE SET {}", k.join(", ")));
                }
                Some(ConflictAction::UpdateExprs(es)) => {
                    let k: Vec<String> = es.iter().map(|(k, e)| format!("{} = {}", r.id(k), x(r, e))).collect();
                    o.push_str(&format!(" DO UPDATE SET {}", k.join(", ")));
                }
                None => {}
            }
            if !c.action_where.is_empty() {
                o.push_str(&format!(" WHERE {}", conj(r, &c.action_where)));
            }
        }
    }
    o.push_str(&returning(r, &s.returning));
    o
}

pub fn upd(r: &mut Ref, s: &Upd) -> String {
    let mut o = String::new();
    if let Some(w) = &s.with {
        o.push_str(&with(r, w));
    }
    o.push_str(&format!("UPDATE {}", r.id(&s.table)));
    if let Some(al) = &s.alias {
        o.push_str(&format!(" AS {}", r.id(al)));
    }
    let mysql_join = r.d == Dialect::Mysql && !s.from.is_empty();
    if mysql_join {
        let f = from(r, &s.from[0]);
        o.push_str(&format!(" JOIN {f}"));
        if !s.wheres.is_empty() {
            o.push_str(&format!(" ON {}", conj(r, &s.wheres)));
        }
    }
    let sets: Vec<String> = s
        .sets
        .iter()
        .map(|(c, e)| {
            let v = x(r, e);
            if mysql_join && s.alias.is_none() {
                format!("{}.{} = {v}", r.id(&s.table), r.id(c))
            } else {
                format!("{} = {v}", r.id(c))
            }
        })
        .collect();
    o.push_str(&format!(" SET {}", sets.join(", ")));
    if !mysql_join {
        if !s.from.is_empty() {
            let fs: Vec<String> = s.from.iter().map(|f| from(r, f)).collect();
            o.push_str(&format!(" FROM {}", fs.join(", ")));
        }
        if !s.wheres.is_empty() {
            o.push_str(&format!(" WHERE {}", conj(r, &s.wheres)));
        }
    }
    // SQLite's update-stmt-limited / delete-stmt-limited put the RETURNING clause before ORDER BY / LIMIT
    if r.d == Dialect::Sqlite {
        o.push_str(&returning(r, &s.returning));
    }
    if !s.orders.is_empty() {
        let os: Vec<String> = s.orders.iter().map(|x| order(r, x)).collect();
        o.push_str(&format!(" ORDER BY {}", os.join(", ")));
    }
    if let Some(l) = s.limit {
        o.push_str(&format!(" LIMIT {}", r.value(&Value::BigUnsigned(Some(l)))));
    }
    if r.d != Dialect::Sqlite {
        o.push_str(&returning(r, &s.returning));
    }
    o
}

pub fn del(r: &mut Ref, s: &Del) -> String {
    let mut o = String::new();
    if let Some(w) = &s.with {
        o.push_str(&with(r, w));
    }
    o.push_str(&format!("DELETE FROM {}", r.id(&s.table)));
    if let Some(al) = &s.alias {
        o.push_str(&format!(" AS {}", r.id(al)));
    }
    if !s.wheres.is_empty() {
        o.push_str(&format!(" WHERE {}", conj(r, &s.wheres)));
    }
    // SQLite's update-stmt-limited / delete-stmt-limited put the RETURNING clause before ORDER BY / LIMIT
    if r.d == Dialect::Sqlite {
        o.push_str(&returning(r, &s.returning));
    }
    if !s.orders.is_empty() {
        let os: Vec<String> = s.orders.iter().map(|x| order(r, x)).collect();
        o.push_str(&format!(" ORDER BY {}", os.join(", ")));
    }
    if let Some(l) = s.limit {
        o.push_str(&format!(" LIMIT {}", r.value(&Value::BigUnsigned(Some(l)))));
    }
    if r.d != Dialect::Sqlite {
        o.push_str(&returning(r, &s.returning));
    }
    o
}

pub fn stmt(r: &mut Ref, s: &Stmt) -> String {
    match s {
        Stmt::Sel(q) => sel(r, q),
        Stmt::Ins(q) => ins(r, q),
        Stmt::Upd(q) => upd(r, q),
        Stmt::Del(q) => del(r, q),
    }
}
