//! C14 — MySQL and Postgres schema statements are complete and well-formed.
//! Each rendered schema statement and an independent reference rendering of the
//! same declaration are parsed with the strict dialect DDL grammar
//! (vcore::ddlparse); the element trees must be equal.

use crate::ddl::*;
use crate::refddl::{AlterOpt, RD};
use crate::util::*;
use sea_query::extension::postgres::{Extension, Type};
use sea_query::*;
use serde_json::json;
use vcore::ddlparse::{parse_ddl, DdlCtx};
use vcore::lex::lex;
use vcore::prng::{hash_str, Rng};
use vcore::report::Report;
use vcore::run::{guard, panic_sig, Ctx};
use vcore::stmt::Tree;

fn a(s: &str) -> Alias {
    Alias::new(s)
}

#[derive(Clone, Debug)]
pub enum S {
    Create(Tbl),
    Alter(String, Vec<AlterOpt>),
    Rename(String, String),
    Drop(Vec<String>, bool, Option<bool>),
    Truncate(String),
    CreateIndex(Ix, String),
    DropIndex(String, String, bool),
    FkCreate(Fk, String),
    FkDrop(String, String),
    TypeCreate(Option<String>, String, Vec<String>),
    TypeAddValue(String, String, bool, Option<(bool, String)>),
    TypeRenameTo(String, String),
    TypeRenameValue(String, String, String),
    TypeDrop(Vec<String>, bool, Option<bool>),
    ExtCreate(String, Option<String>, Option<String>, bool, bool),
    ExtDrop(String, bool, Option<bool>),
}

impl S {
    fn kind(&self) -> &'static str {
        match self {
            S::Create(_) => "create table",
            S::Alter(..) => "alter table",
            S::Rename(..) => "rename table",
            S::Drop(..) => "drop table",
            S::Truncate(_) => "truncate",
            S::CreateIndex(..) => "create index",
            S::DropIndex(..) => "drop index",
            S::FkCreate(..) => "add foreign key",
            S::FkDrop(..) => "drop foreign key",
            S::TypeCreate(..) => "create type",
            S::TypeAddValue(..) => "alter type add value",
            S::TypeRenameTo(..) => "alter type rename to",
            S::TypeRenameValue(..) => "alter type rename value",
            S::TypeDrop(..) => "drop type",
            S::ExtCreate(..) => "create extension",
            S::ExtDrop(..) => "drop extension",
        }
    }

    /// rendered by sea-query
    fn actual(&self, d: Dialect) -> String {
        let _ = sb;
        match self {
            S::Create(t) => crate::ddl::render_table(TableStatement::Create(t.statement()), d),
            S::Alter(t, opts) => {
                let mut al = Table::alter();
                al.table(crate::ddl::tref(t));
                for o in opts {
                    match o {
                        AlterOpt::AddColumn(c, ine) => {
                            let mut cd = c.column_def();
                            match (*ine, crate::apply::route(2)) {
                                (true, 0) => al.add_column_if_not_exists(&mut cd),
                                (true, _) => al.add_column_if_not_exists(cd),
                                (false, 0) => al.add_column(&mut cd),
                                (false, _) => al.add_column(cd),
                            };
                        }
                        AlterOpt::ModifyColumn(c) => {
                            let mut cd = c.column_def();
                            if crate::apply::route(2) == 0 {
                                al.modify_column(&mut cd);
                            } else {
                                al.modify_column(cd);
                            }
                        }
                        AlterOpt::ModifyNoType(c) => {
                            al.modify_column(c.column_def_opt(false));
                        }
                        AlterOpt::RenameColumn(f, t) => {
                            al.rename_column(a(f), a(t));
                        }
                        AlterOpt::DropColumn(c) => {
                            al.drop_column(a(c));
                        }
                        AlterOpt::AddForeignKey(fk) => {
                            al.add_foreign_key(&fk.table_fk(t));
                        }
                        AlterOpt::DropForeignKey(n) => {
                            al.drop_foreign_key(a(n));
                        }
                    }
                }
                crate::ddl::render_table(TableStatement::Alter(al), d)
            }
            S::Rename(f, t) => crate::ddl::render_table(TableStatement::Rename(Table::rename().table(crate::ddl::tref(f), a(t)).to_owned()), d),
            S::Drop(ts, ie, opt) => {
                let mut dr = Table::drop();
                for t in ts {
                    dr.table(crate::ddl::tref(t));
                }
                if *ie {
                    dr.if_exists();
                }
                match opt {
                    Some(true) => {
                        dr.cascade();
                    }
                    Some(false) => {
                        dr.restrict();
                    }
                    None => {}
                }
                crate::ddl::render_table(TableStatement::Drop(dr), d)
            }
            S::Truncate(t) => crate::ddl::render_table(TableStatement::Truncate(Table::truncate().table(crate::ddl::tref(t)).to_owned()), d),
            S::CreateIndex(ix, t) => crate::ddl::render_schema(&ix.statement(Some(t)), d),
            S::DropIndex(n, t, ie) => {
                let mut dr = Index::drop();
                dr.name(n.as_str()).table(crate::ddl::tref(t));
                if *ie {
                    dr.if_exists();
                }
                crate::ddl::render_schema(&dr, d)
            }
            S::FkCreate(fk, t) => crate::ddl::render_schema(&fk.statement(t), d),
            S::FkDrop(n, t) => crate::ddl::render_schema(ForeignKey::drop().name(n.as_str()).table(crate::ddl::tref(t)), d),
            S::TypeCreate(sc, n, labels) => {
                let mut c = Type::create();
                match sc {
                    Some(sc) => c.as_enum((a(sc), a(n))),
                    None => c.as_enum(a(n)),
                };
                c.values(labels.iter().map(|l| a(l)));
                c.to_string(PostgresQueryBuilder)
            }
            S::TypeAddValue(n, v, ine, place) => {
                let mut t = Type::alter().name(a(n)).add_value(a(v));
                if *ine {
                    t = t.if_not_exists();
                }
                if let Some((before, w)) = place {
                    t = if *before { t.before(a(w)) } else { t.after(a(w)) };
                }
                t.to_string(PostgresQueryBuilder)
            }
            S::TypeRenameTo(n, new) => Type::alter().name(a(n)).rename_to(a(new)).to_string(PostgresQueryBuilder),
            S::TypeRenameValue(n, x, y) => Type::alter().name(a(n)).rename_value(a(x), a(y)).to_string(PostgresQueryBuilder),
            S::TypeDrop(ns, ie, opt) => {
                let mut t = Type::drop();
                // the list accumulates over name() / names() calls in any split
                match (ns.len(), crate::apply::route(3)) {
                    (k, 0) if k >= 2 => {
                        t.name(a(&ns[0]));
                        t.names(ns[1..].iter().map(|n| a(n)));
                    }
                    (k, 1) if k >= 2 => {
                        t.names(ns[..k - 1].iter().map(|n| a(n)));
                        t.names(ns[k - 1..].iter().map(|n| a(n)));
                    }
                    (_, 2) => {
                        for n in ns {
                            t.name(a(n));
                        }
                    }
                    _ => {
                        t.names(ns.iter().map(|n| a(n)));
                    }
                }
                if *ie {
                    t.if_exists();
                }
                match opt {
                    Some(true) => {
                        t.cascade();
                    }
                    Some(false) => {
                        t.restrict();
                    }
                    None => {}
                }
                t.to_string(PostgresQueryBuilder)
            }
            S::ExtCreate(n, sc, ver, cascade, ine) => {
                let mut e = Extension::create();
                e.name(n.as_str());
                if let Some(sc) = sc {
                    e.schema(sc.as_str());
                }
                if let Some(v) = ver {
                    e.version(v.as_str());
                }
                if *cascade {
                    e.cascade();
                }
                if *ine {
                    e.if_not_exists();
                }
                e.to_string(PostgresQueryBuilder)
            }
            S::ExtDrop(n, ie, opt) => {
                let mut e = Extension::drop();
                e.name(n.as_str());
                if *ie {
                    e.if_exists();
                }
                match opt {
                    Some(true) => {
                        e.cascade();
                    }
                    Some(false) => {
                        e.restrict();
                    }
                    None => {}
                }
                e.to_string(PostgresQueryBuilder)
            }
        }
    }

    /// independent reference rendering
    fn reference(&self, d: Dialect) -> String {
        let r = RD { d };
        let opt = |o: &Option<bool>| match o {
            Some(true) => " CASCADE",
            Some(false) => " RESTRICT",
            None => "",
        };
        match self {
            S::Create(t) => r.create_table(t),
            S::Alter(t, opts) => r.alter_table(t, opts),
            S::Rename(f, t) => match d {
                Dialect::Mysql => format!("RENAME TABLE {} TO {}", r.tid(f), r.id(t)),
                _ => format!("ALTER TABLE {} RENAME TO {}", r.tid(f), r.id(t)),
            },
            S::Drop(ts, ie, o) => format!("DROP TABLE {}{}{}", if *ie { "IF EXISTS " } else { "" }, ts.iter().map(|t| r.tid(t)).collect::<Vec<_>>().join(", "), opt(o)),
            S::Truncate(t) => format!("TRUNCATE TABLE {}", r.tid(t)),
            S::CreateIndex(ix, t) => r.create_index(ix, t),
            S::DropIndex(n, t, ie) => match d {
                Dialect::Mysql => format!("DROP INDEX {} ON {}", r.id(n), r.tid(t)),
                // Postgres: an index lives in its table's schema and is named with it
                _ => format!(
                    "DROP INDEX {}{}{}",
                    if *ie { "IF EXISTS " } else { "" },
                    t.split_once(crate::ddl::SCHEMA_SEP).map(|(sc, _)| format!("{}.", r.id(sc))).unwrap_or_default(),
                    r.id(n)
                ),
            },
            S::FkCreate(fk, t) => format!("ALTER TABLE {} ADD {}", r.tid(t), r.fk_clause(fk)),
            S::FkDrop(n, t) => match d {
                Dialect::Mysql => format!("ALTER TABLE {} DROP FOREIGN KEY {}", r.tid(t), r.id(n)),
                _ => format!("ALTER TABLE {} DROP CONSTRAINT {}", r.tid(t), r.id(n)),
            },
            S::TypeCreate(sc, n, labels) => format!(
                "CREATE TYPE {}{} AS ENUM ({})",
                sc.as_ref().map(|s| format!("{}.", r.id(s))).unwrap_or_default(),
                r.id(n),
                labels.iter().map(|l| r.str(l)).collect::<Vec<_>>().join(", ")
            ),
            S::TypeAddValue(n, v, ine, place) => format!(
                "ALTER TYPE {} ADD VALUE {}{}{}",
                r.id(n),
                if *ine { "IF NOT EXISTS " } else { "" },
                r.str(v),
                place.as_ref().map(|(b, w)| format!(" {} {}", if *b { "BEFORE" } else { "AFTER" }, r.str(w))).unwrap_or_default()
            ),
            S::TypeRenameTo(n, new) => format!("ALTER TYPE {} RENAME TO {}", r.id(n), r.id(new)),
            S::TypeRenameValue(n, x, y) => format!("ALTER TYPE {} RENAME VALUE {} TO {}", r.id(n), r.str(x), r.str(y)),
            S::TypeDrop(ns, ie, o) => format!("DROP TYPE {}{}{}", if *ie { "IF EXISTS " } else { "" }, ns.iter().map(|t| r.id(t)).collect::<Vec<_>>().join(", "), opt(o)),
            S::ExtCreate(n, sc, ver, cascade, ine) => format!(
                "CREATE EXTENSION {}{n}{}{}{}",
                if *ine { "IF NOT EXISTS " } else { "" },
                sc.as_ref().map(|s| format!(" WITH SCHEMA {s}")).unwrap_or_default(),
                ver.as_ref().map(|s| format!(" VERSION {s}")).unwrap_or_default(),
                if *cascade { " CASCADE" } else { "" }
            ),
            S::ExtDrop(n, ie, o) => format!("DROP EXTENSION {}{n}{}", if *ie { "IF EXISTS " } else { "" }, opt(o)),
        }
    }
}

fn parse(d: Dialect, sql: &str, cx: &DdlCtx) -> Result<Tree, String> {
    let toks = lex(d, sql).map_err(|e| format!("lex error at {}: {}", e.at, e.msg))?;
    parse_ddl(d, &toks, cx).map_err(|e| {
        let near: Vec<String> = toks.iter().skip(e.at.saturating_sub(3)).take(6).map(|t| t.tok.short()).collect();
        format!("{} (near: {})", e.msg, near.join(" "))
    })
}

fn first_diff(x: &Tree, y: &Tree, path: &str) -> String {
    match (x, y) {
        (Tree::N(la, ka), Tree::N(lb, kb)) => {
            if la != lb {
                return format!("{path}: {la} vs {lb}");
            }
            for (p, q) in ka.iter().zip(kb.iter()) {
                if p != q {
                    return first_diff(p, q, &format!("{path}/{la}"));
                }
            }
            format!("{path}/{la}: {} elements vs {}", ka.len(), kb.len())
        }
        (Tree::A(p), Tree::A(q)) => format!("{path}: `{}` vs `{}`", norm_atom(p), norm_atom(q)),
        (Tree::E(_), Tree::E(_)) => format!("{path}: expression differs"),
        _ => format!("{path}: node kinds differ"),
    }
}

fn norm_atom(s: &str) -> String {
    // keep type names / keywords, drop identifiers' payloads
    s.split_whitespace().take(3).collect::<Vec<_>>().join(" ")
}

/// Postgres has a serial form for smallint / integer / bigint only: `auto_increment()` on a column of any
/// other type cannot be expressed, and the builder refuses it (it panics). A rendering that simply leaves
/// the auto-increment out would be a silent loss of a declared specification.
fn undeclarable_auto_increment(d: Dialect, s: &S) -> Option<String> {
    if d != Dialect::Postgres {
        return None;
    }
    let bad = |c: &Col| c.has(|x| *x == CS::AutoInc) && !matches!(c.ty, Ty::SmallInt | Ty::Int | Ty::BigInt);
    match s {
        S::Create(t) => t.cols.iter().find(|c| bad(c)).map(|c| c.name.clone()),
        S::Alter(_, opts) => opts.iter().find_map(|o| match o {
            AlterOpt::AddColumn(c, _) if bad(c) => Some(c.name.clone()),
            _ => None,
        }),
        _ => None,
    }
}

pub fn check_stmt(ctx: &Ctx, rep: &mut Report, n: u64, d: Dialect, s: &S, label: &str) {
    rep.eval();
    if let Some(col) = undeclarable_auto_increment(d, s) {
        match guard(|| s.actual(d)) {
            Err(_) => rep.count("refusals_observed", 1),
            Ok(sql) => {
                let serial = sql.to_ascii_lowercase().contains("serial");
                if !serial {
                    rep.violation(
                        "R.ddl-structure",
                        d.name(),
                        format!("{}: auto_increment on a type without a serial form is left out instead of refused", s.kind()),
                        json!({"column": col, "sql": sql}),
                        ctx.shard,
                        n,
                    );
                }
            }
        }
        return;
    }
    let cx = DdlCtx { custom_types: vec!["mood".into(), "geometry".into(), "citext".into()] };
    let reference = s.reference(d);
    let want = match parse(d, &reference, &cx) {
        Ok(t) => t,
        Err(e) => {
            rep.inconclusive("reference DDL not derivable by the grammar model");
            rep.note("reference_parse_failures", format!("{e} :: {}", reference.chars().take(300).collect::<String>()));
            return;
        }
    };
    let actual = match guard(|| s.actual(d)) {
        Ok(x) => x,
        Err(p) => {
            rep.violation("R.panic", d.name(), format!("{}: {}", s.kind(), panic_sig(&p)), json!({"statement": format!("{s:?}"), "panic": p}), ctx.shard, n);
            return;
        }
    };
    let pinned = label.starts_with("pinned:");
    match parse(d, &actual, &cx) {
        Err(e) => {
            let short = e.split(" (near").next().unwrap_or("").to_string();
            rep.violation(
                "R.ddl-grammar",
                d.name(),
                if pinned { format!("{label} -> not derivable") } else { format!("{}: not derivable: {short}", s.kind()) },
                json!({"sql": actual, "error": e, "reference": reference}),
                ctx.shard,
                n,
            );
        }
        Ok(got) => {
            if got != want {
                let diff = first_diff(&got, &want, "");
                rep.violation(
                    "R.ddl-structure",
                    d.name(),
                    if pinned { format!("{label} -> {diff}") } else { format!("{}: {diff}", s.kind()) },
                    json!({"sql": actual, "reference": reference, "rendering_tree": got.show(), "reference_tree": want.show()}),
                    ctx.shard,
                    n,
                );
            } else {
                rep.count("statements_parsed_and_matched", 1);
                rep.count(&format!("kind.{}", s.kind()), 1);
                let mut labels = vec![];
                got.labels(&mut labels);
                for l in labels {
                    rep.note("elements_parsed", format!("{}:{l}", d.name()));
                }
                rep.nontrivial(hash_str(&actual) ^ (d as u64) << 62);
                if n % 1117 == 3 {
                    rep.sample(json!({"backend": d.name(), "sql": actual}));
                }
            }
        }
    }
}

// ---- generators -----------------------------------------------------------------

fn spec_pool(d: Dialect, ty: &Ty) -> Vec<CS> {
    let mut v = vec![
        CS::NotNull,
        CS::Null,
        CS::Default(DefVal::Int(7)),
        CS::Default(DefVal::Text("it's".into())),
        CS::Default(DefVal::Null),
        CS::Unique,
        CS::PrimaryKey,
        CS::Check(0),
        CS::CheckLt(90),
        CS::Comment("a 'note'".into()),
    ];
    let auto_ok = match d {
        Dialect::Mysql => ty.is_int(),
        _ => matches!(ty, Ty::SmallInt | Ty::Int | Ty::BigInt),
    };
    if auto_ok {
        v.push(CS::AutoInc);
    }
    if d == Dialect::Mysql && matches!(ty, Ty::Char(_) | Ty::Str(_) | Ty::Text) {
        // free-form text after the column's specifications (MySQL takes column attributes in any order)
        v.push(CS::Extra("COLLATE utf8mb4_bin".into()));
    }
    v
}

fn compatible(specs: &[CS]) -> bool {
    for (i, x) in specs.iter().enumerate() {
        for y in &specs[i + 1..] {
            if std::mem::discriminant(x) == std::mem::discriminant(y) {
                return false;
            }
        }
    }
    true
}

fn random_col(rng: &mut Rng, d: Dialect, name: &str) -> Col {
    let types = types_of(d);
    let ty = rng.pick(&types).clone();
    let pool = spec_pool(d, &ty);
    let k = rng.below(5);
    let mut specs = vec![];
    for _ in 0..k {
        let s = rng.pick(&pool).clone();
        if !specs.iter().any(|x: &CS| std::mem::discriminant(x) == std::mem::discriminant(&s)) {
            specs.push(s);
        }
    }
    if rng.chance(1, 12) {
        specs.push(CS::Generated("c0".into(), d == Dialect::Postgres || rng.coin()));
    }
    if d == Dialect::Postgres && matches!(ty, Ty::TinyInt | Ty::TinyU | Ty::SmallU | Ty::Unsigned | Ty::BigU | Ty::Text | Ty::Uuid) && rng.chance(1, 10) && !specs.contains(&CS::AutoInc) {
        // (undeclarable on Postgres: the builder refuses it, see undeclarable_auto_increment)
        specs.push(CS::AutoInc);
    }
    Col { name: name.into(), ty, specs }
}

/// Names are identifiers like any other: now and then one that needs its quoting.
fn odd(rng: &mut Rng, base: &str) -> String {
    if rng.chance(1, 6) {
        format!("{base}{}", rng.pick(&["\"", "`", " x", "'", "\"\""]))
    } else {
        base.to_string()
    }
}

/// a table name, now and then odd, now and then qualified with a schema
fn tbn(rng: &mut Rng, base: &str) -> String {
    let t = odd(rng, base);
    if rng.chance(1, 5) {
        format!("{}{}{t}", odd(rng, "sch"), crate::ddl::SCHEMA_SEP)
    } else {
        t
    }
}

/// `qualify`: the referenced table may carry a schema (MySQL's foreign-key and index renderers refuse
/// schema-qualified tables with an explicit "Not supported" panic: outside the domain there)
fn random_fk(rng: &mut Rng, name: &str, qualify: bool) -> Fk {
    let two = rng.chance(1, 4);
    Fk {
        name: Some(name.into()),
        cols: if two { vec!["c0".into(), "c1".into()] } else { vec!["c1".into()] },
        ref_table: if qualify && rng.chance(1, 6) { format!("sch{}parent", crate::ddl::SCHEMA_SEP) } else { "parent".into() },
        ref_cols: if two { vec!["id".into(), "k".into()] } else { vec!["id".into()] },
        on_delete: if rng.coin() { Some(*rng.pick(&ACTIONS)) } else { None },
        on_update: if rng.coin() { Some(*rng.pick(&ACTIONS)) } else { None },
    }
}

fn random_index(rng: &mut Rng, d: Dialect, in_table: bool) -> Ix {
    let ncols = 1 + rng.below(3);
    let cols = (0..ncols)
        .map(|i| (format!("c{i}"), if rng.coin() { Some(rng.coin()) } else { None }, if d == Dialect::Mysql && rng.chance(1, 4) { Some(8) } else { None }))
        .collect();
    let primary = in_table && rng.chance(1, 3);
    Ix {
        // index / constraint names are identifiers like any other
        name: if primary && rng.coin() { None } else { Some(format!("ix{}{}", rng.below(100), if rng.chance(1, 6) { *rng.pick(&["\"", "`", " x", "'"]) } else { "" })) },
        unique: if primary { false } else if in_table && d == Dialect::Postgres { true } else { rng.coin() },
        primary,
        cols,
        index_type: if d == Dialect::Mysql || !in_table { if rng.chance(1, 3) { Some(rng.below(if d == Dialect::Mysql { 3 } else { 4 }) as u8) } else { None } } else { None },
        include: if d == Dialect::Postgres && rng.chance(1, 4) { vec!["c9".into()] } else { vec![] },
        nulls_not_distinct: d == Dialect::Postgres && rng.chance(1, 5),
        if_not_exists: d == Dialect::Postgres && !in_table && rng.coin(),
        filter: if d == Dialect::Postgres && !in_table && rng.chance(1, 3) { Some(("c0".into(), rng.range(0, 9))) } else { None },
        filter_more: if d == Dialect::Postgres && !in_table { (0..rng.pick_weighted(&[3, 2, 1])).map(|_| rng.range(10, 19)).collect() } else { vec![] },
    }
}

fn random_stmt(rng: &mut Rng, d: Dialect) -> S {
    let pg = d == Dialect::Postgres;
    match rng.below(if pg { 16 } else { 9 }) {
        0 | 1 | 2 => {
            let ncols = 1 + rng.below(5);
            let mut t = Tbl { name: "tb".into(), ..Default::default() };
            if pg && rng.chance(1, 5) {
                t.schema = Some("sch".into());
            }
            t.if_not_exists = rng.chance(1, 4);
            t.temporary = rng.chance(1, 8);
            for i in 0..ncols {
                t.cols.push(random_col(rng, d, &format!("c{i}")));
            }
            for _ in 0..rng.below(3) {
                t.indexes.push(random_index(rng, d, true));
            }
            for i in 0..rng.below(3) {
                t.fks.push(random_fk(rng, &format!("fk{i}"), pg));
            }
            if rng.chance(1, 3) {
                t.checks.push(("c0".into(), if rng.chance(1, 3) { 100 + rng.range(0, 5) } else { rng.range(0, 5) }));
            }
            if d == Dialect::Mysql {
                if rng.chance(1, 3) {
                    t.comment = Some("tab 'c'".into());
                }
                if rng.chance(1, 3) {
                    t.engine = Some("InnoDB".into());
                }
                if rng.chance(1, 4) {
                    t.collate = Some("utf8mb4_unicode_ci".into());
                }
                if rng.chance(1, 4) {
                    t.charset = Some("utf8mb4".into());
                }
            }
            S::Create(t)
        }
        3 | 4 => {
            let k = 1 + rng.below(3);
            let mut opts = vec![];
            for i in 0..k {
                opts.push(match rng.below(6) {
                    0 => AlterOpt::AddColumn(random_col(rng, d, &format!("n{i}")), rng.coin()),
                    1 => {
                        let mut c = random_col(rng, d, &format!("c{i}"));
                        if pg && rng.chance(1, 4) {
                            // a conversion expression for the new type (it belongs right after the type)
                            c.specs.insert(0, CS::Using(1 + rng.below(9) as i64));
                        }
                        AlterOpt::ModifyColumn(c)
                    }
                    2 => {
                        let mut c = random_col(rng, d, &format!("c{i}"));
                        c.specs.retain(|s| !matches!(s, CS::Generated(..)));
                        // Postgres: specifications only; an action list must not be empty
                        if d == Dialect::Postgres && c.specs.iter().any(|s| matches!(s, CS::Null | CS::NotNull | CS::Default(_) | CS::Unique | CS::PrimaryKey | CS::Check(_) | CS::CheckLt(_))) {
                            AlterOpt::ModifyNoType(c)
                        } else {
                            AlterOpt::ModifyColumn(c)
                        }
                    }
                    3 => AlterOpt::RenameColumn(format!("c{i}"), format!("r{i}")),
                    4 => AlterOpt::DropColumn(format!("c{i}")),
                    _ => {
                        if rng.coin() {
                            AlterOpt::AddForeignKey(random_fk(rng, &format!("fk{i}"), pg))
                        } else {
                            AlterOpt::DropForeignKey(format!("fk{i}"))
                        }
                    }
                });
            }
            let has_fk = opts.iter().any(|o| matches!(o, AlterOpt::AddForeignKey(_) | AlterOpt::DropForeignKey(_)));
            S::Alter(if pg || !has_fk { tbn(rng, "tb") } else { odd(rng, "tb") }, opts)
        }
        5 => match rng.below(3) {
            0 => S::Rename(tbn(rng, "tb"), "tb2".into()),
            1 => S::Truncate(tbn(rng, "tb")),
            _ => S::Drop((0..1 + rng.below(3)).map(|i| tbn(rng, &format!("t{i}"))).collect(), rng.coin(), if rng.coin() { Some(rng.coin()) } else { None }),
        },
        6 => S::CreateIndex(
            {
                let mut ix = random_index(rng, d, false);
                if ix.name.is_none() {
                    ix.name = Some("ixn".into());
                }
                ix
            },
            if pg { tbn(rng, "tb") } else { odd(rng, "tb") },
        ),
        7 => S::DropIndex(odd(rng, "ix1"), if pg { tbn(rng, "tb") } else { odd(rng, "tb") }, pg && rng.coin()),
        8 => {
            if rng.coin() {
                let name = odd(rng, "fk1");
                S::FkCreate(random_fk(rng, &name, pg), if pg { tbn(rng, "tb") } else { odd(rng, "tb") })
            } else {
                S::FkDrop(odd(rng, "fk1"), if pg { tbn(rng, "tb") } else { odd(rng, "tb") })
            }
        }
        9 | 10 => S::TypeCreate(if rng.chance(1, 4) { Some("sch".into()) } else { None }, "mood".into(), (0..1 + rng.below(3)).map(|i| format!("l{i}'x")).collect()),
        11 => S::TypeAddValue("mood".into(), "new'v".into(), rng.coin(), if rng.coin() { Some((rng.coin(), "l0".into())) } else { None }),
        12 => S::TypeRenameValue("mood".into(), "l0".into(), "l9".into()),
        13 => S::TypeDrop((0..1 + rng.below(2)).map(|i| odd(rng, &format!("ty{i}"))).collect(), rng.coin(), if rng.coin() { Some(rng.coin()) } else { None }),
        14 => S::ExtCreate("ltree".into(), if rng.coin() { Some("public".into()) } else { None }, if rng.coin() { Some("v2".into()) } else { None }, rng.coin(), rng.coin()),
        _ => S::ExtDrop("ltree".into(), rng.coin(), if rng.coin() { Some(rng.coin()) } else { None }),
    }
}

pub fn check(ctx: &Ctx, rep: &mut Report) {
    let mut n = 0u64;
    // (1) bounded-exhaustive: every type x every specification sequence of length <= 2 (quick) / 3 (thorough)
    let maxlen = ctx.size(2, 3) as usize;
    for d in [Dialect::Mysql, Dialect::Postgres] {
        for ty in types_of(d) {
            let pool = spec_pool(d, &ty);
            let mut seqs: Vec<Vec<CS>> = vec![vec![]];
            let mut frontier: Vec<Vec<CS>> = vec![vec![]];
            for _ in 0..maxlen {
                let mut next = vec![];
                for s in &frontier {
                    for p in &pool {
                        let mut t = s.clone();
                        t.push(p.clone());
                        if compatible(&t) {
                            next.push(t);
                        }
                    }
                }
                seqs.extend(next.iter().cloned());
                frontier = next;
            }
            for specs in seqs {
                if ctx.mine(n) {
                    let col = Col { name: "c0".into(), ty: ty.clone(), specs };
                    let t = Tbl { name: "tb".into(), cols: vec![col.clone()], ..Default::default() };
                    check_stmt(ctx, rep, n, d, &S::Create(t), "exhaustive");
                    if n % 3 == 0 {
                        check_stmt(ctx, rep, n, d, &S::Alter("tb".into(), vec![AlterOpt::ModifyColumn(col.clone())]), "exhaustive");
                    }
                    if d == Dialect::Postgres && n % 3 == 1 && col.specs.iter().any(|s| matches!(s, CS::Null | CS::NotNull | CS::Default(_) | CS::Unique | CS::PrimaryKey | CS::Check(_) | CS::CheckLt(_))) {
                        check_stmt(ctx, rep, n, d, &S::Alter("tb".into(), vec![AlterOpt::ModifyNoType(col)]), "exhaustive");
                    }
                }
                n += 1;
            }
        }
    }
    if ctx.shard == 0 && ctx.replay.is_none() {
        rep.exhaustive_parts.push(format!("every ColumnType parameterisation of each dialect x every compatible specification sequence of length <= {maxlen} as CREATE TABLE (and every third as ALTER TABLE modify_column): {n} declarations"));
    }
    // (2) pinned probes of listed findings
    let base = 1u64 << 50;
    let probes: Vec<(&str, Dialect, S)> = vec![
        ("pinned: Postgres ALTER TYPE .. RENAME TO", Dialect::Postgres, S::TypeRenameTo("mood".into(), "feeling".into())),
    ];
    for (i, (label, d, s)) in probes.iter().enumerate() {
        let n = base + i as u64;
        if (ctx.replay.is_none() && ctx.shard != 0) || !ctx.wants(n) {
            continue;
        }
        crate::apply::set_route_seed(ctx.seed ^ n.wrapping_mul(0x9E3779B97F4A7C15));
        check_stmt(ctx, rep, n, *d, s, label);
    }
    // (3) random statements of every kind
    let rbase = 1u64 << 40;
    let total = ctx.size(100_000, 20_000_000) / ctx.nshards;
    for k in 0..total {
        let n = rbase + k;
        if !ctx.wants(n) {
            continue;
        }
        crate::apply::set_route_seed(ctx.seed ^ n.wrapping_mul(0x9E3779B97F4A7C15));
        for d in [Dialect::Mysql, Dialect::Postgres] {
            let mut rng = ctx.rng("stmt", k * 2 + d as u64);
            let s = random_stmt(&mut rng, d);
            check_stmt(ctx, rep, n, d, &s, "random");
        }
    }
}
