//! C09 — portable statements denote the same query on all three backends.
//! The MySQL and Postgres renderings are transliterated token by token into
//! SQLite spelling (nothing but lexical spelling is rewritten) and all three are
//! executed on the same fixture.

use crate::apply;
use crate::fixture::{binds_of, show_outcome, Fixture, Outcome};
use crate::gen::{clause_kinds, Cfg, Gen};
use crate::spec::*;
use crate::util::*;
use sea_query::Values;
use serde_json::json;
use vcore::lex::{lex, sqlite_blob, sqlite_ident, sqlite_str, Tok};
use vcore::prng::hash_str;
use vcore::report::Report;
use vcore::run::{guard, panic_sig, Ctx};

/// Token-by-token transliteration into SQLite spelling.
pub fn transliterate(d: Dialect, sql: &str) -> Result<String, String> {
    let toks = lex(d, sql).map_err(|e| format!("lex error: {}", e.msg))?;
    let t: Vec<&Tok> = toks.iter().map(|x| &x.tok).collect();
    // find parentheses that wrap set-operation operands: `UNION [ALL] ( SELECT ... )`
    let mut drop = vec![false; t.len()];
    let mut stack: Vec<(usize, bool)> = vec![];
    for i in 0..t.len() {
        match t[i] {
            Tok::LParen => {
                let after_setop = i > 0
                    && (t[i - 1].is_word("UNION") || t[i - 1].is_word("ALL") && i > 1 && t[i - 2].is_word("UNION") || t[i - 1].is_word("INTERSECT") || t[i - 1].is_word("EXCEPT"));
                let is_operand = after_setop && t.get(i + 1).map(|x| x.is_word("SELECT") || x.is_word("WITH")).unwrap_or(false);
                stack.push((i, is_operand));
            }
            Tok::RParen => {
                if let Some((open, is_operand)) = stack.pop() {
                    if is_operand {
                        drop[open] = true;
                        drop[i] = true;
                    }
                }
            }
            _ => {}
        }
    }
    let mut out: Vec<String> = vec![];
    for (i, tok) in t.iter().enumerate() {
        if drop[i] {
            continue;
        }
        let next_is_paren = matches!(t.get(i + 1), Some(Tok::LParen));
        out.push(match tok {
            Tok::Ident(x) => sqlite_ident(x),
            // Postgres spells a bytea value as the string '\x<hex>' (bytea hex input format); no text value of
            // the portable workload starts with `\x`
            Tok::Str(s) if d == Dialect::Postgres && s.starts_with("\\x") && s.len() % 2 == 0 && s[2..].chars().all(|c| c.is_ascii_hexdigit()) => {
                let h = &s[2..];
                let bytes: Vec<u8> = (0..h.len() / 2).map(|i| u8::from_str_radix(&h[2 * i..2 * i + 2], 16).unwrap()).collect();
                sqlite_blob(&bytes)
            }
            Tok::Str(s) => sqlite_str(s),
            Tok::Bytes(b) => sqlite_blob(b),
            Tok::Num(n) => n.clone(),
            Tok::Param(_) => "?".into(),
            Tok::Word(w) => {
                let up = w.to_ascii_uppercase();
                if next_is_paren {
                    match up.as_str() {
                        // documented function-name substitutions
                        "GREATEST" => "MAX".into(),
                        "LEAST" => "MIN".into(),
                        "CHAR_LENGTH" => "LENGTH".into(),
                        // MySQL's LENGTH() counts bytes: not the portable character count
                        "LENGTH" if d == Dialect::Mysql => "MYSQL_BYTE_LENGTH".into(),
                        "RAND" => "RANDOM".into(),
                        // MySQL's VALUES ROW(..) -> VALUES (..)
                        "ROW" if d == Dialect::Mysql => continue,
                        _ => w.clone(),
                    }
                } else {
                    w.clone()
                }
            }
            Tok::Op(o) => o.clone(),
            Tok::LParen => "(".into(),
            Tok::RParen => ")".into(),
            Tok::Comma => ",".into(),
            Tok::Dot => ".".into(),
            Tok::Semi => ";".into(),
            Tok::LBracket => "[".into(),
            Tok::RBracket => "]".into(),
        });
    }
    // join without spaces around dots so qualified names stay one name
    let mut s = String::new();
    for (i, p) in out.iter().enumerate() {
        if i > 0 && p != "." && out[i - 1] != "." {
            s.push(' ');
        }
        s.push_str(p);
    }
    Ok(s)
}

pub fn check_spec(ctx: &Ctx, rep: &mut Report, fx: &Fixture, n: u64, spec: &Stmt, pinned: Option<&str>) {
    rep.eval();
    let ordered = matches!(spec, Stmt::Sel(q) if q.total_order);
    let kinds = clause_kinds(spec);
    let sigk = || format!("{} [{}]", spec.kind(), kinds.join(","));
    // render on the three backends, both modes (same builder routes for all three)
    let mut outs: Vec<(Dialect, &'static str, String, Outcome)> = vec![];
    for d in Dialect::ALL {
        apply::set_route_seed(ctx.seed ^ n.wrapping_mul(0x9E3779B97F4A7C15));
        let r = guard(|| {
            let b = apply::stmt(spec);
            (b.inline(qb(d)), b.build(qb(d)))
        });
        let (inline, (param, vals)) = match r {
            Ok(x) => x,
            Err(p) => {
                rep.violation("R.panic", d.name(), format!("{} {}", spec.kind(), panic_sig(&p)), json!({"panic": p, "spec": format!("{spec:?}")}), ctx.shard, n);
                return;
            }
        };
        for (mode, sql, v) in [("inline", inline, Values(vec![])), ("parameterised", param, vals)] {
            let lite = if d == Dialect::Sqlite { Ok(sql.clone()) } else { transliterate(d, &sql) };
            let lite = match lite {
                Ok(s) => s,
                Err(e) => {
                    rep.violation("R.transliterate", d.name(), format!("rendering does not lex: {}", sigk()), json!({"sql": sql, "error": e}), ctx.shard, n);
                    return;
                }
            };
            let binds = match binds_of(&v) {
                Some(b) => b,
                None => {
                    rep.inconclusive("unbindable value");
                    return;
                }
            };
            let o = fx.run(&lite, &binds, ordered);
            rep.count("engine_executions", 1);
            outs.push((d, mode, lite, o));
        }
    }
    // the SQLite inline form is the pivot; a pivot the engine rejects is a generator problem (C07's subject)
    let pivot = outs.iter().find(|o| o.0 == Dialect::Sqlite && o.1 == "inline").unwrap().3.clone();
    if let Outcome::Rejected(m) = &pivot {
        rep.inconclusive("SQLite rendering rejected (not a cross-backend verdict)");
        rep.note("pivot_rejections", m.chars().take(80).collect::<String>());
        return;
    }
    for (d, mode, sql, o) in &outs {
        if *o != pivot {
            let what = match (o, &pivot) {
                (Outcome::Rejected(_), _) => "transliterated rendering rejected",
                (Outcome::Ok { rows: a, .. }, Outcome::Ok { rows: b, .. }) if a != b => "different rows",
                (Outcome::Ok { .. }, Outcome::Ok { .. }) => "different table contents",
                _ => "different outcome",
            };
            rep.violation(
                "R.same-query",
                d.name(),
                match pinned {
                    Some(l) => format!("{l} -> {what}"),
                    None => format!("{what}: {}", sigk()),
                },
                json!({"mode": mode, "transliterated": sql, "outcome": show_outcome(o),
                       "sqlite_rendering": outs[4].2, "sqlite_outcome": show_outcome(&pivot)}),
                ctx.shard,
                n,
            );
            return;
        }
    }
    for k in &kinds {
        rep.count(&format!("clause.{k}"), 1);
    }
    if let Outcome::Ok { rows, .. } = &pivot {
        rep.count("result_rows_compared", rows.len() as u64 * 5);
        if kinds.contains(&"nulls-order") && kinds.contains(&"limit") {
            rep.count("nulls_emulation_observable_cases", 1);
        }
    }
    if kinds.len() >= 3 {
        rep.nontrivial(hash_str(&outs[4].2));
    }
    if n % 911 == 7 {
        rep.sample(json!({"mysql": outs[0].2, "postgres": outs[2].2, "sqlite": outs[4].2, "outcome": show_outcome(&pivot)}));
    }
}

fn pinned(ctx: &Ctx, rep: &mut Report, fx: &Fixture) {
    use crate::xspec::X;
    use sea_query::Value;
    let n = 1u64 << 50;
    if (ctx.replay.is_none() && ctx.shard != 0) || !ctx.wants(n) {
        return;
    }
    // ORDER BY FIELD(..) combined with NULLS LAST
    let spec = Stmt::Sel(Sel {
        items: vec![
            Item { expr: X::QCol("t1".into(), "c".into()), alias: Some("o1".into()), window: None },
            Item { expr: X::QCol("t1".into(), "id".into()), alias: Some("o2".into()), window: None },
        ],
        from: vec![From_::Table("t1".into(), None)],
        orders: vec![
            Ord_ { expr: X::Col("o1"), dir: Dir::Field(vec![Value::from("x")]), nulls_first: Some(false) },
            Ord_ { expr: X::Col("o2"), dir: Dir::Asc, nulls_first: None },
        ],
        limit: Some(12),
        out: vec!["o1".into(), "o2".into()],
        total_order: true,
        ..Default::default()
    });
    check_spec(ctx, rep, fx, n, &spec, Some("pinned: ORDER BY FIELD with NULLS LAST"));
}

pub fn check(ctx: &Ctx, rep: &mut Report) {
    let fx = Fixture::new();
    pinned(ctx, rep, &fx);
    let total = ctx.size(5_000, 480_000) / ctx.nshards;
    for k in 0..total {
        if !ctx.wants(k) {
            continue;
        }
        let mut rng = ctx.rng("stmt", k);
        let spec = {
            let mut g = Gen::new(&mut rng, Cfg::portable_exec());
            g.statement()
        };
        if ctx.verbose {
            println!("spec: {spec:#?}");
        }
        check_spec(ctx, rep, &fx, k, &spec, None);
    }
}
