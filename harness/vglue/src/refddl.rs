//! Reference DDL renderer for MySQL and Postgres: the declaration written out in
//! the dialect's grammar (Appendix G), with the type table the dialect defines.

use crate::ddl::*;
use crate::util::Dialect;
use sea_query::StringLen;

pub struct RD {
    pub d: Dialect,
}

impl RD {
    pub fn id(&self, s: &str) -> String {
        match self.d {
            Dialect::Mysql => format!("`{}`", s.replace('`', "``")),
            _ => format!("\"{}\"", s.replace('"', "\"\"")),
        }
    }
    /// a table name of the harness: `schema.table` when it carries the schema separator
    pub fn tid(&self, s: &str) -> String {
        match s.split_once(crate::ddl::SCHEMA_SEP) {
            Some((sc, t)) => format!("{}.{}", self.id(sc), self.id(t)),
            None => self.id(s),
        }
    }
    pub fn str(&self, s: &str) -> String {
        match self.d {
            Dialect::Mysql => format!("'{}'", s.replace('\\', "\\\\").replace('\'', "''")),
            _ => {
                if s.contains('\\') {
                    format!("E'{}'", s.replace('\\', "\\\\").replace('\'', "''"))
                } else {
                    format!("'{}'", s.replace('\'', "''"))
                }
            }
        }
    }

    /// the dialect's type for an abstract column type; `auto` = auto-increment requested
    pub fn ty(&self, t: &Ty, auto: bool) -> String {
        let len = |l: &StringLen, dflt: &str, max: &str| match l {
            StringLen::N(n) => format!("({n})"),
            StringLen::None => dflt.to_string(),
            StringLen::Max => max.to_string(),
        };
        match self.d {
            Dialect::Mysql => match t {
                Ty::Char(n) => format!("char{}", n.map(|n| format!("({n})")).unwrap_or_default()),
                Ty::Str(l) => format!("varchar{}", len(l, "(255)", "(65535)")),
                Ty::Text => "text".into(),
                Ty::Blob => "blob".into(),
                Ty::TinyInt => "tinyint".into(),
                Ty::SmallInt => "smallint".into(),
                Ty::Int => "int".into(),
                Ty::BigInt => "bigint".into(),
                Ty::TinyU => "tinyint UNSIGNED".into(),
                Ty::SmallU => "smallint UNSIGNED".into(),
                Ty::Unsigned => "int UNSIGNED".into(),
                Ty::BigU => "bigint UNSIGNED".into(),
                Ty::Float => "float".into(),
                Ty::Double => "double".into(),
                Ty::Decimal(p) | Ty::Money(p) => format!("decimal{}", p.map(|(a, b)| format!("({a}, {b})")).unwrap_or_default()),
                Ty::DateTime => "datetime".into(),
                Ty::Timestamp | Ty::TimestampTz => "timestamp".into(),
                Ty::Time => "time".into(),
                Ty::Date => "date".into(),
                Ty::Year => "year".into(),
                Ty::Binary(n) => format!("binary({n})"),
                Ty::VarBinary(l) => format!("varbinary{}", len(l, "(255)", "(65535)")),
                Ty::Bit(n) => format!("bit{}", n.map(|n| format!("({n})")).unwrap_or_default()),
                Ty::VarBit(n) => format!("bit({n})"),
                Ty::Bool => "bool".into(),
                Ty::Json | Ty::JsonB => "json".into(),
                Ty::Uuid => "binary(16)".into(),
                Ty::Enum(_, vs) => format!("ENUM({})", vs.iter().map(|v| self.str(v)).collect::<Vec<_>>().join(", ")),
                Ty::Custom(w) => w.clone(),
                other => panic!("{other:?} is not generated for MySQL"),
            },
            _ => {
                if auto {
                    return match t {
                        Ty::SmallInt => "smallserial".into(),
                        Ty::Int => "serial".into(),
                        Ty::BigInt => "bigserial".into(),
                        other => panic!("auto increment on {other:?} is not generated for Postgres"),
                    };
                }
                match t {
                    Ty::Char(n) => format!("char{}", n.map(|n| format!("({n})")).unwrap_or_default()),
                    Ty::Str(l) => format!("varchar{}", len(l, "", "")),
                    Ty::Text => "text".into(),
                    Ty::TinyInt | Ty::SmallInt | Ty::TinyU | Ty::SmallU => "smallint".into(),
                    Ty::Int | Ty::Unsigned => "integer".into(),
                    Ty::BigInt | Ty::BigU => "bigint".into(),
                    Ty::Float => "real".into(),
                    Ty::Double => "double precision".into(),
                    Ty::Decimal(p) => format!("decimal{}", p.map(|(a, b)| format!("({a}, {b})")).unwrap_or_default()),
                    Ty::DateTime => "timestamp without time zone".into(),
                    Ty::Timestamp => "timestamp".into(),
                    Ty::TimestampTz => "timestamp with time zone".into(),
                    Ty::Time => "time".into(),
                    Ty::Date => "date".into(),
                    Ty::Interval(f, p) => format!(
                        "interval{}{}",
                        f.map(|k| format!(" {}", crate::ddl::PG_INTERVAL_FIELDS[k as usize % 13])).unwrap_or_default(),
                        p.map(|p| format!("({p})")).unwrap_or_default()
                    ),
                    Ty::Binary(_) | Ty::VarBinary(_) | Ty::Blob => "bytea".into(),
                    Ty::Bit(n) => format!("bit{}", n.map(|n| format!("({n})")).unwrap_or_default()),
                    Ty::VarBit(n) => format!("varbit({n})"),
                    Ty::Bool => "bool".into(),
                    // PostgreSQL's money type takes no precision
                    Ty::Money(_) => "money".into(),
                    Ty::Json => "json".into(),
                    Ty::JsonB => "jsonb".into(),
                    Ty::Uuid => "uuid".into(),
                    Ty::Enum(n, _) => n.clone(),
                    Ty::Array(e) => format!("{}[]", self.ty(e, false)),
                    Ty::Vector(n) => format!("vector{}", n.map(|n| format!("({n})")).unwrap_or_default()),
                    Ty::Cidr => "cidr".into(),
                    Ty::Inet => "inet".into(),
                    Ty::MacAddr => "macaddr".into(),
                    Ty::LTree => "ltree".into(),
                    Ty::Custom(w) => w.clone(),
                    Ty::Year => panic!("Year is not generated for Postgres"),
                }
            }
        }
    }

    pub fn defval(&self, v: &DefVal) -> String {
        match v {
            DefVal::Int(i) => i.to_string(),
            DefVal::Text(t) => self.str(t),
            DefVal::Real(f) => format!("{f}"),
            DefVal::Bool(b) => if *b { "TRUE" } else { "FALSE" }.into(),
            DefVal::Null => "NULL".into(),
            DefVal::CurrentTimestamp => "CURRENT_TIMESTAMP".into(),
            // a JSON document is written as the string literal of its serialised text
            DefVal::Json(t) => self.str(&crate::ddl::json_default(t).to_string()),
            DefVal::Bytes(b) => {
                let hex: String = b.iter().map(|x| format!("{x:02X}")).collect();
                if self.d == Dialect::Postgres {
                    format!("'\\x{hex}'")
                } else {
                    format!("x'{hex}'")
                }
            }
        }
    }

    pub fn column(&self, c: &Col) -> String {
        let auto = c.has(|s| *s == CS::AutoInc);
        let mut out = format!("{} {}", self.id(&c.name), self.ty(&c.ty, auto));
        for s in &c.specs {
            match s {
                CS::NotNull => out.push_str(" NOT NULL"),
                CS::Null => out.push_str(" NULL"),
                CS::Default(v) => out.push_str(&format!(" DEFAULT {}", self.defval(v))),
                CS::Unique => out.push_str(" UNIQUE"),
                CS::PrimaryKey => out.push_str(" PRIMARY KEY"),
                CS::AutoInc => {
                    if self.d == Dialect::Mysql {
                        out.push_str(" AUTO_INCREMENT")
                    }
                }
                CS::Check(k) => out.push_str(&format!(" CHECK (({}) > ({k}))", self.id(&c.name))),
                CS::CheckLt(k) => out.push_str(&format!(" CHECK (({}) < ({k}))", self.id(&c.name))),
                CS::Generated(o, stored) => out.push_str(&format!(" GENERATED ALWAYS AS ((({}) + (1))) {}", self.id(o), if *stored { "STORED" } else { "VIRTUAL" })),
                CS::Comment(t) => {
                    if self.d == Dialect::Mysql {
                        out.push_str(&format!(" COMMENT {}", self.str(t)))
                    }
                }
                CS::Extra(w) => out.push_str(&format!(" {w}")),
                // a conversion expression has a place in Postgres' ALTER COLUMN .. TYPE only
                CS::Using(_) => {}
            }
        }
        out
    }

    fn icols(&self, ix: &Ix) -> String {
        let cols: Vec<String> = ix
            .cols
            .iter()
            .map(|(c, desc, prefix)| {
                let mut s = self.id(c);
                if let (Some(p), Dialect::Mysql) = (prefix, self.d) {
                    s.push_str(&format!(" ({p})"));
                }
                match desc {
                    Some(true) => s.push_str(" DESC"),
                    Some(false) => s.push_str(" ASC"),
                    None => {}
                }
                s
            })
            .collect();
        format!("({})", cols.join(", "))
    }

    fn using(&self, t: u8) -> &'static str {
        match (self.d, t) {
            (_, 0) => "BTREE",
            (_, 1) => "HASH",
            (Dialect::Postgres, 2) => "GIN",
            _ => "gist",
        }
    }

    pub fn table_index(&self, ix: &Ix) -> String {
        match self.d {
            Dialect::Mysql => {
                let mut s = String::new();
                if ix.primary {
                    s.push_str("PRIMARY ");
                }
                if ix.unique {
                    s.push_str("UNIQUE ");
                }
                if ix.index_type == Some(2) {
                    s.push_str("FULLTEXT ");
                }
                s.push_str("KEY ");
                if let Some(n) = &ix.name {
                    s.push_str(&format!("{} ", self.id(n)));
                }
                if let Some(t) = ix.index_type {
                    if t != 2 {
                        s.push_str(&format!("USING {} ", self.using(t)));
                    }
                }
                s.push_str(&self.icols(ix));
                s
            }
            _ => {
                let mut s = String::new();
                if let Some(n) = &ix.name {
                    s.push_str(&format!("CONSTRAINT {} ", self.id(n)));
                }
                s.push_str(if ix.primary { "PRIMARY KEY " } else { "UNIQUE " });
                if ix.nulls_not_distinct {
                    s.push_str("NULLS NOT DISTINCT ");
                }
                s.push_str(&self.icols(ix));
                if !ix.include.is_empty() {
                    s.push_str(&format!(" INCLUDE ({})", ix.include.iter().map(|c| self.id(c)).collect::<Vec<_>>().join(", ")));
                }
                s
            }
        }
    }

    pub fn fk_clause(&self, fk: &Fk) -> String {
        let mut s = format!(
            "CONSTRAINT {} FOREIGN KEY ({}) REFERENCES {} ({})",
            self.id(fk.name.as_deref().unwrap_or("")),
            fk.cols.iter().map(|c| self.id(c)).collect::<Vec<_>>().join(", "),
            self.tid(&fk.ref_table),
            fk.ref_cols.iter().map(|c| self.id(c)).collect::<Vec<_>>().join(", ")
        );
        if let Some(a) = fk.on_delete {
            s.push_str(&format!(" ON DELETE {}", action_sql(a)));
        }
        if let Some(a) = fk.on_update {
            s.push_str(&format!(" ON UPDATE {}", action_sql(a)));
        }
        s
    }

    pub fn create_table(&self, t: &Tbl) -> String {
        let mut s = String::from("CREATE ");
        if t.temporary {
            s.push_str("TEMPORARY ");
        }
        s.push_str("TABLE ");
        if t.if_not_exists {
            s.push_str("IF NOT EXISTS ");
        }
        if let Some(sc) = &t.schema {
            s.push_str(&format!("{}.", self.id(sc)));
        }
        s.push_str(&self.id(&t.name));
        let mut elems: Vec<String> = t.cols.iter().map(|c| self.column(c)).collect();
        elems.extend(t.indexes.iter().map(|i| self.table_index(i)));
        elems.extend(t.fks.iter().map(|f| self.fk_clause(f)));
        elems.extend(t.checks.iter().map(|(c, k)| {
            if *k >= 100 {
                let i = self.id(c);
                format!("CHECK (((({i}) > ({})) OR (({i}) < (0))) AND ((({i}) < (1000)) OR (({i}) = ({k}))))", k - 100)
            } else {
                format!("CHECK (({}) > ({k}))", self.id(c))
            }
        }));
        s.push_str(&format!(" ( {} )", elems.join(", ")));
        if self.d == Dialect::Mysql {
            if let Some(c) = &t.comment {
                s.push_str(&format!(" COMMENT {}", self.str(c)));
            }
            if let Some(e) = &t.engine {
                s.push_str(&format!(" ENGINE={e}"));
            }
            if let Some(e) = &t.collate {
                s.push_str(&format!(" COLLATE={e}"));
            }
            if let Some(e) = &t.charset {
                s.push_str(&format!(" DEFAULT CHARSET={e}"));
            }
        }
        s
    }

    pub fn create_index(&self, ix: &Ix, table: &str) -> String {
        let mut s = String::from("CREATE ");
        if ix.unique {
            s.push_str("UNIQUE ");
        }
        if self.d == Dialect::Mysql && ix.index_type == Some(2) {
            s.push_str("FULLTEXT ");
        }
        s.push_str("INDEX ");
        if ix.if_not_exists && self.d == Dialect::Postgres {
            s.push_str("IF NOT EXISTS ");
        }
        s.push_str(&format!("{} ON {}", self.id(ix.name.as_deref().unwrap_or("")), self.tid(table)));
        match self.d {
            Dialect::Postgres => {
                if let Some(t) = ix.index_type {
                    s.push_str(&format!(" USING {}", self.using(t)));
                }
                s.push_str(&format!(" {}", self.icols(ix)));
                if !ix.include.is_empty() {
                    s.push_str(&format!(" INCLUDE ({})", ix.include.iter().map(|c| self.id(c)).collect::<Vec<_>>().join(", ")));
                }
                if ix.nulls_not_distinct {
                    s.push_str(" NULLS NOT DISTINCT");
                }
                if let Some((c, k)) = &ix.filter {
                    s.push_str(&format!(" WHERE (({}) > ({k}))", self.id(c)));
                    for m in &ix.filter_more {
                        s.push_str(&format!(" AND (({}) <> ({m}))", self.id(c)));
                    }
                }
            }
            _ => {
                s.push_str(&format!(" {}", self.icols(ix)));
                if let Some(t) = ix.index_type {
                    if t != 2 {
                        s.push_str(&format!(" USING {}", self.using(t)));
                    }
                }
            }
        }
        s
    }
}

/// ALTER TABLE options of the harness
#[derive(Clone, Debug)]
pub enum AlterOpt {
    AddColumn(Col, bool),
    ModifyColumn(Col),
    /// Postgres only: modify_column with a ColumnDef that has no type (specifications only)
    ModifyNoType(Col),
    RenameColumn(String, String),
    DropColumn(String),
    AddForeignKey(Fk),
    DropForeignKey(String),
}

impl RD {
    pub fn alter_table(&self, table: &str, opts: &[AlterOpt]) -> String {
        let mut acts: Vec<String> = vec![];
        for o in opts {
            match o {
                AlterOpt::AddColumn(c, ine) => acts.push(format!("ADD COLUMN {}{}", if *ine { "IF NOT EXISTS " } else { "" }, self.column(c))),
                AlterOpt::ModifyColumn(c) => match self.d {
                    Dialect::Mysql => acts.push(format!("MODIFY COLUMN {}", self.column(c))),
                    _ => {
                        // one action per specification that has a Postgres form
                        let using = match c.specs.first() {
                            Some(CS::Using(k)) => format!(" USING (({}) + ({k}))", self.id(&c.name)),
                            _ => String::new(),
                        };
                        acts.push(format!("ALTER COLUMN {} TYPE {}{using}", self.id(&c.name), self.ty(&c.ty, false)));
                        for s in &c.specs {
                            match s {
                                CS::Null => acts.push(format!("ALTER COLUMN {} DROP NOT NULL", self.id(&c.name))),
                                CS::NotNull => acts.push(format!("ALTER COLUMN {} SET NOT NULL", self.id(&c.name))),
                                CS::Default(v) => acts.push(format!("ALTER COLUMN {} SET DEFAULT {}", self.id(&c.name), self.defval(v))),
                                CS::Unique => acts.push(format!("ADD UNIQUE ({})", self.id(&c.name))),
                                CS::PrimaryKey => acts.push(format!("ADD PRIMARY KEY ({})", self.id(&c.name))),
                                CS::Check(k) => acts.push(format!("ADD CHECK (({}) > ({k}))", self.id(&c.name))),
                            CS::CheckLt(k) => acts.push(format!("ADD CHECK (({}) < ({k}))", self.id(&c.name))),
                                CS::AutoInc | CS::Generated(..) | CS::Comment(_) | CS::Extra(_) | CS::Using(_) => {}
                            }
                        }
                    }
                },
                AlterOpt::ModifyNoType(c) => {
                    for s in &c.specs {
                        match s {
                            CS::Null => acts.push(format!("ALTER COLUMN {} DROP NOT NULL", self.id(&c.name))),
                            CS::NotNull => acts.push(format!("ALTER COLUMN {} SET NOT NULL", self.id(&c.name))),
                            CS::Default(v) => acts.push(format!("ALTER COLUMN {} SET DEFAULT {}", self.id(&c.name), self.defval(v))),
                            CS::Unique => acts.push(format!("ADD UNIQUE ({})", self.id(&c.name))),
                            CS::PrimaryKey => acts.push(format!("ADD PRIMARY KEY ({})", self.id(&c.name))),
                            CS::Check(k) => acts.push(format!("ADD CHECK (({}) > ({k}))", self.id(&c.name))),
                            CS::CheckLt(k) => acts.push(format!("ADD CHECK (({}) < ({k}))", self.id(&c.name))),
                            CS::AutoInc | CS::Generated(..) | CS::Comment(_) | CS::Extra(_) | CS::Using(_) => {}
                        }
                    }
                }
                AlterOpt::RenameColumn(f, t) => acts.push(format!("RENAME COLUMN {} TO {}", self.id(f), self.id(t))),
                AlterOpt::DropColumn(c) => acts.push(format!("DROP COLUMN {}", self.id(c))),
                AlterOpt::AddForeignKey(fk) => acts.push(format!("ADD {}", self.fk_clause(fk))),
                AlterOpt::DropForeignKey(n) => acts.push(match self.d {
                    Dialect::Mysql => format!("DROP FOREIGN KEY {}", self.id(n)),
                    _ => format!("DROP CONSTRAINT {}", self.id(n)),
                }),
            }
        }
        format!("ALTER TABLE {} {}", self.tid(table), acts.join(", "))
    }
}
