#!/usr/bin/env python3
"""Markdown table of the seeded changes under /verif/seeded and which checks caught them."""
import json, os, glob
root = os.path.join(os.path.dirname(os.path.abspath(__file__)), "..", "seeded")
rows = []
for d in sorted(glob.glob(os.path.join(root, "C*-*"))):
    name = os.path.basename(d)
    meta = json.load(open(os.path.join(d, "meta.json"))) if os.path.exists(os.path.join(d, "meta.json")) else {}
    conf = json.load(open(os.path.join(d, "confirm.json"))) if os.path.exists(os.path.join(d, "confirm.json")) else {}
    caught, silent, inconc, later = [], [], [], []
    for f in sorted(glob.glob(os.path.join(d, "result-*.json"))):
        tier = os.path.basename(f)[7:-5]
        for p, r in json.load(open(f)).items():
            if not isinstance(r, dict):
                continue
            tag = p if tier == "quick" else f"{p}({tier})"
            (caught if r["exit"] == 1 else inconc if r["exit"] == 2 else silent).append(tag)
            if r["exit"] == 1 and isinstance(r.get("earlier"), dict) and r["earlier"].get("exit") in (0, 2):
                later.append(tag)
    caught = sorted(set(caught)); silent = sorted(set(silent) - set(caught))
    s = (meta.get("summary") or "").replace("|", "/").replace("\n", " ")
    rows.append(f"| {name} | {s[:230]} | {'yes' if conf.get('confirmed') else 'NO' if conf else '?'} | {', '.join(c + ('*' if c in later else '') for c in caught) or '—'} | {', '.join(silent) or '—'}{(' ; inconclusive: ' + ', '.join(sorted(set(inconc)))) if inconc else ''} |")
print("| seeded change | what it does | confirmed (477 pass, demo fails/passes) | caught by | silent |")
print("|---|---|---|---|---|")
print("\n".join(rows))
