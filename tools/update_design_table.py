#!/usr/bin/env python3
"""Rewrite the seeded-change table of DESIGN.md (between the seeded-table markers) from /verif/seeded."""
import os, subprocess, re
root = os.path.join(os.path.dirname(os.path.abspath(__file__)), "..")
table = subprocess.run(["python3", os.path.join(root, "tools", "seeded_table.py")], capture_output=True, text=True, check=True).stdout
p = os.path.join(root, "DESIGN.md")
s = open(p).read()
b, e = "<!-- seeded-table:begin -->", "<!-- seeded-table:end -->"
i, j = s.index(b) + len(b), s.index(e)
open(p, "w").write(s[:i] + "\n" + table + s[j:])
print("rows:", table.count("\n") - 2)

# --- the counts and the list of the Outcome paragraph, from the result files ---------------------------
import glob as _glob, os as _os, re as _re, json as _json
_miss, _n = [], 0
for _d in sorted(_glob.glob('/verif/seeded/*/')):
    _name = _os.path.basename(_d.rstrip('/'))
    _f = _d + 'result-quick.json'
    if not _os.path.exists(_f):
        continue
    _n += 1
    _r = _json.load(open(_f))
    _caught = sorted(p for p, v in _r.items() if isinstance(v, dict) and v.get('exit') == 1)
    if not _caught:
        print("NOT CAUGHT BY ANY CHECK:", _name)
    if _name.split('-')[0] not in _caught:
        _miss.append(f"{_name} ({', '.join(_caught)})")
_p = '/verif/DESIGN.md'
_s = open(_p).read()
_a = _s.index("**Outcome.** Every confirmed change")
_b = _s.index("**What the misses taught")
_new = _re.sub(r"\d+ of the \d+ are reported", f"{_n - len(_miss)} of the {_n} are reported", _s[_a:_b])
_new = _re.sub(r"the other \d+ are reported", f"the other {len(_miss)} are reported", _new)
_new = _re.sub(r"whichever property's agent wrote it\): .*?\.\nIn the table", "whichever property's agent wrote it): " + '; '.join(_miss) + ".\nIn the table", _new, flags=_re.S)
open(_p, 'w').write(_s[:_a] + _new + _s[_b:])
print("outcome paragraph:", _n, "changes,", len(_miss), "not by their own check")
