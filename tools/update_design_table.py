#!/usr/bin/env python3
"""Rewrite the seeded-change table of DESIGN.md (between the seeded-table markers) from /verif/seeded."""
import os, subprocess, re
root = os.path.join(os.path.dirname(os.path.abspath(__file__)), "..")
table = subprocess.run(["python3", os.path.join(root, "tools", "seeded_table.py")], capture_output=True, text=True, check=True).stdout
p = os.path.join(root, "DESIGN.md")
s = open(p).read()
b, e = "<!-- seeded-table:begin -->", "<!-- seeded-table:end -->"
i, j = s.index(b) + len(b), s.index(e)
open(p, "w").write(s[:i] + "\n" + table + s[j:])
print("rows:", table.count("\n") - 2)
