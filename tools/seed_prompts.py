#!/usr/bin/env python3
"""Write the prompts for one round of seeded changes.

  tools/seed_prompts.py <round> <steer-file> <PROP> [<PROP>...]

For each property: /tmp/mutout<round>/<PROP>.prompt.txt — the property's text (nothing from /verif's
machinery), the work rules, the summaries of the changes earlier rounds already made for that property
(so they are not repeated) and this round's steering paragraph. Worktrees are expected at /tmp/mut<round>/<PROP>."""
import glob, json, os, sys

rnd, steer_file, props = sys.argv[1], sys.argv[2], sys.argv[3:]
steer = open(steer_file).read().strip()
P = {json.loads(l)["id"]: json.loads(l) for l in open("/verif/properties.jsonl")}
TEMPLATE = open(os.path.join(os.path.dirname(__file__), "seed_prompt_template.txt")).read()
os.makedirs(f"/tmp/mutout{rnd}", exist_ok=True)
for p in props:
    pr = P[p]
    done = []
    for d in sorted(glob.glob(f"/verif/seeded/{p}-*/meta.json")) + sorted(glob.glob(f"/verif/seeded/{p}-[0-9]/meta.json")):
        try:
            s = json.load(open(d)).get("summary", "")
        except Exception:
            continue
        line = "- " + " ".join(s.split())[:230]
        if line not in done:
            done.append(line)
    a = pr.get("anchors", {})
    anchors = "files " + ", ".join(a.get("files", [])) + "; mechanisms: " + "; ".join(f"{m['name']} ({m['where']})" for m in a.get("mechanism", []))
    text = TEMPLATE.replace("{WT}", f"/tmp/mut{rnd}/{p}").replace("{OUT}", f"/tmp/mutout{rnd}/{p}").replace("{ID}", p)
    text = text.replace("{TITLE}", pr["title"]).replace("{STATEMENT}", pr["statement"]).replace("{QUANT}", pr["quantifier"]["text"])
    text = text.replace("{WHY}", pr["why_tests_cant"]).replace("{ANCHORS}", anchors).replace("{DONE}", "\n".join(done)).replace("{STEER}", steer)
    open(f"/tmp/mutout{rnd}/{p}.prompt.txt", "w").write(text)
    print(p, len(done), "earlier changes listed")
