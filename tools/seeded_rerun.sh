#!/bin/bash
# re-run without confirm: run_seeded_nc.sh "<dir:props;dir:props>"
cd /verif; export VERIF_SRC=${VERIF_SRC:-/verif}
IFS=';' read -ra items <<< "$1"
for it in "${items[@]}"; do
  d=${it%%:*}; props=${it#*:}
  python3 tools/seeded.py $d quick $props 2>&1 | grep -v "^WARNING"
done
