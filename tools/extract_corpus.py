#!/usr/bin/env python3
"""Extract the expected SQL strings asserted in /repo/tests/{mysql,postgres,sqlite}/query.rs as DATA
(one statement per line) for calibrating the grammar models. The test files are not run or edited."""
import re, sys, os
out_dir = os.path.join(os.path.dirname(os.path.abspath(__file__)), "..", "corpus")
STR = r'r#"(?P<raw>.*?)"#|r"(?P<raw2>[^"]*)"|"(?P<plain>(?:[^"\\]|\\.)*)"'
def unescape(s):
    return bytes(s, "utf-8").decode("unicode_escape").encode("latin-1", "ignore").decode("utf-8", "ignore") if "\\" in s else s
for d in ("mysql", "postgres", "sqlite"):
    src = open(f"/repo/tests/{d}/query.rs", encoding="utf-8").read()
    stmts = []
    # [ "a", "b" ].join(" ")
    for m in re.finditer(r'\[(?P<body>(?:\s*(?:r#".*?"#|r"[^"]*"|"(?:[^"\\]|\\.)*")\s*,?)+)\s*\]\s*\.join\(" "\)', src, re.S):
        parts = []
        for s in re.finditer(STR, m.group("body"), re.S):
            parts.append(s.group("raw") if s.group("raw") is not None else (s.group("raw2") if s.group("raw2") is not None else unescape(s.group("plain"))))
        stmts.append(" ".join(parts))
    # every other string literal that is a whole statement (array spans removed first)
    rest = re.sub(r'\[(?:\s*(?:r#".*?"#|"(?:[^"\\]|\\.)*")\s*,?)+\s*\]\s*\.join\(" "\)', "", src, flags=re.S)
    for m in re.finditer(STR, rest, re.S):
        s = m.group("raw") if m.group("raw") is not None else (m.group("raw2") if m.group("raw2") is not None else unescape(m.group("plain") or ""))
        stmts.append(s)
    keep = []
    for s in stmts:
        s = " ".join(s.split())
        if re.match(r"^(SELECT|INSERT|UPDATE|DELETE|WITH|REPLACE)\b", s) and s not in keep:
            keep.append(s)
    open(os.path.join(out_dir, f"{d}.txt"), "w", encoding="utf-8").write("\n".join(keep) + "\n")
    print(d, len(keep))
