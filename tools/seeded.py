#!/usr/bin/env python3
"""Run checks against a seeded change.

  tools/seeded.py <seeded-dir> <tier> <PROP> [<PROP>...] [--in-repo] [--confirm]

Default (isolated) mode: a scratch git worktree of /repo gets <seeded-dir>/patch.diff applied, a shadow
copy of /verif (sources only) is pointed at that worktree and `./check <PROP> <tier>` runs there, so /repo is
never touched and several seeded changes can be evaluated in parallel.
--in-repo: the prescribed way — `git -C /repo apply`, run the checks in /verif, `git -C /repo checkout -- .`.
--confirm: additionally confirm the seeded change itself in the scratch worktree: the 477-test baseline
passes with it, and the demonstration (meta.json demo_cmd, demo.rs) fails with it and passes without.
Writes <seeded-dir>/result-<tier>.json (and confirm.json)."""
import json, os, re, shutil, subprocess, sys, time, hashlib

args = [a for a in sys.argv[1:] if not a.startswith("--")]
flags = [a for a in sys.argv[1:] if a.startswith("--")]
d, tier, props = os.path.abspath(args[0]), args[1], args[2:]
name = hashlib.sha1(d.encode()).hexdigest()[:10]
patch = os.path.join(d, "patch.diff")
ENV = dict(os.environ, CARGO_NET_OFFLINE="true", RUST_BACKTRACE="0")
BASELINE = ["cargo", "nextest", "run", "--workspace", "--no-fail-fast", "--tool-config-file", "pb:/w/lib/nextest.toml", "--profile", "pb", "--test-threads", "8", "--offline"]


def sh(cmd, cwd=None, timeout=None, env=None):
    return subprocess.run(cmd, cwd=cwd, capture_output=True, text=True, timeout=timeout, env=env or ENV)


def summarize(q):
    return [l for l in q.stdout.splitlines() if l.startswith("VIOLATION") or l.startswith("  rule=") or l.startswith("INCONCLUSIVE")][:8]


def run_checks(root, extra_env):
    res = {}
    for p in props:
        t0 = time.time()
        q = sh(["./check", p, tier], cwd=root, env=dict(ENV, **extra_env))
        lines = summarize(q)
        res[p] = {"exit": q.returncode, "wall_s": round(time.time() - t0, 1), "lines": lines}
        print(os.path.basename(os.path.dirname(d)) + "/" + os.path.basename(d), p, tier, "exit", q.returncode, f"{time.time()-t0:.0f}s", "|", " ; ".join(lines[:4])[:300], flush=True)
    return res


if "--in-repo" in flags:
    assert sh(["git", "-C", "/repo", "status", "--porcelain", "--untracked-files=no"]).stdout.strip() == "", "/repo not clean"
    r = sh(["git", "-C", "/repo", "apply", patch])
    if r.returncode != 0:
        print("APPLY FAILED", r.stderr[:500])
        sys.exit(3)
    try:
        res = run_checks("/verif", {})
    finally:
        subprocess.run(["git", "-C", "/repo", "checkout", "--", "."], check=True)
    json.dump(res, open(os.path.join(d, f"result-{tier}-in-repo.json"), "w"), indent=1)
    sys.exit(0)

wt = f"/tmp/seedwt/{name}"
shadow = f"/tmp/verif-shadow/{name}"
os.makedirs("/tmp/seedwt", exist_ok=True)
os.makedirs("/tmp/verif-shadow", exist_ok=True)
if os.path.exists(wt):
    sh(["git", "-C", "/repo", "worktree", "remove", "--force", wt])
r = sh(["git", "-C", "/repo", "worktree", "add", "--detach", wt, "HEAD"])
assert r.returncode == 0, r.stderr
try:
    r = sh(["git", "-C", wt, "apply", patch])
    if r.returncode != 0:
        r = sh(["git", "-C", wt, "apply", "--3way", patch])
    if r.returncode != 0:
        print("APPLY FAILED", r.stderr[:500])
        json.dump({"apply_failed": r.stderr[:2000]}, open(os.path.join(d, f"result-{tier}.json"), "w"))
        sys.exit(3)
    if "--confirm" in flags:
        conf = {}
        meta = json.load(open(os.path.join(d, "meta.json")))
        tgt = os.path.join("/tmp/seedwt", "target-confirm" + os.environ.get("SEED_LANE", "0"))
        e = dict(ENV, CARGO_TARGET_DIR=tgt)
        t = sh(BASELINE, cwd=wt, timeout=3000, env=e)
        m = re.search(r"(\d+) tests run: (\d+) passed", t.stdout + t.stderr)
        conf["baseline_with_change"] = m.group(0) if m else (t.stdout + t.stderr)[-300:]
        demo_cmd = meta.get("demo_cmd", "")
        k = re.search(r"demo_\w+", demo_cmd)
        demo_name = k.group(0) if k else "demo_1"
        shutil.copy(os.path.join(d, "demo.rs"), os.path.join(wt, "tests", demo_name + ".rs"))
        cmd = re.sub(r"^cd \S+ && ", "", demo_cmd.strip())
        cmd = cmd if cmd.startswith("cargo") else f"cargo test --offline --features tests-cfg --test {demo_name}"
        a = subprocess.run(cmd, shell=True, cwd=wt, capture_output=True, text=True, env=e, timeout=3000)
        conf["demo_with_change_exit"] = a.returncode
        sh(["git", "-C", wt, "apply", "-R", patch])
        b = subprocess.run(cmd, shell=True, cwd=wt, capture_output=True, text=True, env=e, timeout=3000)
        conf["demo_without_change_exit"] = b.returncode
        conf["demo_cmd"] = cmd
        conf["confirmed"] = bool(m and m.group(1) == m.group(2) == "477" and a.returncode != 0 and b.returncode == 0)
        os.remove(os.path.join(wt, "tests", demo_name + ".rs"))
        sh(["git", "-C", wt, "apply", patch])
        json.dump(conf, open(os.path.join(d, "confirm.json"), "w"), indent=1)
        print(os.path.basename(os.path.dirname(d)) + "/" + os.path.basename(d), "CONFIRM", conf, flush=True)
    if props:
        # shadow copy of /verif pointing at the mutated worktree
        if os.path.exists(shadow):
            shutil.rmtree(shadow)
        subprocess.run(["rsync", "-a", "--exclude", ".git", "--exclude", "target", "--exclude", "evidence", "--exclude", "replays", "--exclude", "seeded", os.environ.get("VERIF_SRC", "/verif").rstrip("/") + "/", shadow + "/"], check=True)
        for f in ["harness/vglue/Cargo.toml"]:
            p = os.path.join(shadow, f)
            s = open(p).read().replace('path = "/repo"', f'path = "{wt}"')
            open(p, "w").write(s)
        # share compiled third-party dependencies between shadows
        lane = os.environ.get("SEED_LANE", "0")
        os.makedirs(f"/tmp/verif-shadow/target{lane}", exist_ok=True)
        os.symlink(f"/tmp/verif-shadow/target{lane}", os.path.join(shadow, "harness", "target"))
        res = run_checks(shadow, {"C19_REPO": wt, "C20_REPO": wt})
        rf = os.path.join(d, f"result-{tier}.json")
        old = json.load(open(rf)) if os.path.exists(rf) else {}
        if isinstance(old, dict):
            # keep the history of earlier runs of the same check (before a monitor was strengthened)
            for k, v in res.items():
                if k in old and old[k].get("exit") != v.get("exit"):
                    v["earlier"] = {"exit": old[k].get("exit"), "lines": old[k].get("lines", [])[:2]}
            old.update(res)
            res = old
        json.dump(res, open(rf, "w"), indent=1)
finally:
    sh(["git", "-C", "/repo", "worktree", "remove", "--force", wt])
    shutil.rmtree(shadow, ignore_errors=True)
