#!/usr/bin/env python3
"""Run checks against a seeded change: apply <dir>/patch.diff to /repo, run ./check <PROP> <tier> for each
given property, restore /repo, print a summary line per check. Usage: tools/seeded.py <seeded-dir> <tier> <PROP> [<PROP>...]
Never leaves /repo modified (restores even on error)."""
import subprocess, sys, os, json, time
d, tier, props = sys.argv[1], sys.argv[2], sys.argv[3:]
patch = os.path.join(d, "patch.diff")
assert subprocess.run(["git", "-C", "/repo", "status", "--porcelain", "--untracked-files=no"], capture_output=True, text=True).stdout.strip() == "", "/repo not clean"
r = subprocess.run(["git", "-C", "/repo", "apply", patch], capture_output=True, text=True)
if r.returncode != 0:
    print("APPLY FAILED", r.stderr[:500]); sys.exit(3)
res = {}
try:
    for p in props:
        t0 = time.time()
        q = subprocess.run(["./check", p, tier], cwd="/verif", capture_output=True, text=True)
        lines = [l for l in q.stdout.splitlines() if l.startswith("VIOLATION") or l.startswith("  rule=") or l.startswith("INCONCLUSIVE")]
        res[p] = {"exit": q.returncode, "wall_s": round(time.time() - t0, 1), "lines": lines[:8]}
        print(p, tier, "exit", q.returncode, f"{time.time()-t0:.0f}s", "|", " ; ".join(lines[:4])[:400], flush=True)
finally:
    subprocess.run(["git", "-C", "/repo", "checkout", "--", "."], check=True)
json.dump(res, open(os.path.join(d, f"result-{tier}.json"), "w"), indent=1)
