#!/bin/bash
# usage: run_seeded_batch.sh "<dirs>" "<props>"
cd /verif; export VERIF_SRC=${VERIF_SRC:-/verif}
for d in $1; do
  own=$(basename $d | cut -d- -f1)
  extra=$(echo " $2 " | sed "s/ $own / /")
  python3 tools/seeded.py $d quick $own $extra --confirm 2>&1 | grep -v "^WARNING"
done
