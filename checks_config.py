"""Per-property configuration shared by ./check and gen_manifest.py."""

BASE = [{"variant": "base"}]

CHECKS = {
    "C16": {
        "parts": BASE,
        "level": "exploration",
        "technique": "runtime monitor: step-bounded tokenizer driver + losslessness/quoted-run oracle (bounded-exhaustive + random inputs)",
        "rule": "inputs: every string over the 15-symbol token alphabet {space TAB a 1 _ $ ? , ' \" ` [ ] \\ e-acute} up to length 5 (quick) / 7 (thorough), random Unicode strings up to 300 chars, short strings over 18 characters from outside ASCII's classes (byte-order mark, Unicode spaces, form feed, non-Latin and superscript digits, NUL), constructed prefix+quoted-run+suffix inputs (bracket runs end at the first `]` that no backslash precedes; one case in eight ends inside the run right after a doubled delimiter: one quoted token to the end of the input) and constructed prefix+word+suffix inputs (a word — letters of any script or digits, then letters, digits, `_`, `$` — is one unquoted token); a case is non-trivial when it tokenizes into >= 2 tokens; distinct = distinct input strings (hashed)",
        "assumptions": [
            "reference for quoted runs is the construction itself: the run is assembled from pieces (plain chars, doubled delimiter, backslash-escaped delimiter, escaped backslash, marks) so its end is known without re-implementing the tokenizer",
            "a hang inside one tokenizer call is reported after 30 s without progress (normal cost is microseconds)",
        ],
        "design_ref": "DESIGN.md §5 C16",
        "level_text": "Every tokenizer execution is driven step by step under a step bound (chars+1) and checked for losslessness, non-empty tokens and quoted-run integrity; the input space is enumerated exhaustively to length 5/7 over the token-relevant alphabet and sampled beyond. Exploration is the right level: the property is a universally quantified statement over strings whose interesting cases are short.",
        "level_note": "Trusted: the harness's own string enumeration and the piecewise construction of quoted runs. Decides only the inputs executed.",
    },
    "C17": {
        "parts": BASE,
        "level": "exploration",
        "technique": "runtime monitor: round-trip identity oracle over bounded-exhaustive and random strings on the three real backends",
        "rule": "inputs: every string over the 18-symbol escape alphabet {\\ ' \" NUL BS TAB LF CR SUB 0 b t z n r a e-acute %} up to length 4 (quick) / 6 (thorough) plus random Unicode strings, each on MySQL, Postgres and SQLite, the backend held in one of five ways (behind &dyn QueryBuilder, as the struct, boxed, behind a double reference, as a boxed trait object; method-call syntax); non-trivial = escape_string changed the input; distinct = distinct (input, backend)",
        "assumptions": ["identity is checked on Rust Strings (exact code points)"],
        "design_ref": "DESIGN.md §5 C17",
        "level_text": "unescape_string(escape_string(s)) == s is executed on the real backends for every string of the bounded space and a large random sample; exploration is appropriate because inverse-ness can only break on short escape-relevant sequences, which are enumerated exhaustively.",
        "level_note": "Decides only the strings executed; no model is involved (pure identity law).",
    },
}

CHECKS["C03"] = {
    "parts": BASE,
    "level": "exploration",
    "technique": "runtime monitor: dialect lexers/decoders written from the engine manuals + real SQLite engine decode the rendered literal; marker-vs-hostile token-sequence comparison (bounded-exhaustive + random)",
    "rule": "inputs: every string over the 21-symbol escape alphabet {' \" \\ NUL BS TAB LF CR SUB % _ a z Z 0 x e-acute euro g-clef ? $} up to length 3 (quick) / 4 (thorough) in each of 27 literal positions (query values, constants, ORDER BY FIELD, LIKE/ESCAPE, JSON object member and top-level JSON string, Postgres ARRAY, DEFAULT, MySQL COMMENT and ENUM labels, Postgres CREATE/ALTER TYPE labels, inject_parameters incl. a numbered placeholder used twice, INSERT/UPDATE values, ALTER TABLE defaults and comments, index predicates, CHECK expressions) x 3 backends; every char U+0000..U+FFFF plus sampled astral chars as Value::Char and as LIKE ESCAPE char; all byte strings of length <= 2 and random longer ones; random Unicode strings, 1 in 150 of them padded to a length around a documented limit (255 .. 70,000 characters); each rendering goes through one of the equivalent entry points (build_collect_any / to_string / build_collect; build_any / build / to_string for schema statements) and the positions whose constant stays inline under build are followed by a bound value. Non-trivial = the value contains a non-alphanumeric character; distinct = distinct (value, position, backend)",
    "assumptions": [
        "MySQL default sql_mode (no ANSI_QUOTES / NO_BACKSLASH_ESCAPES); Postgres standard_conforming_strings=on; lexical rules transcribed from the manuals (DESIGN Appendix A)",
        "NUL is excluded for Postgres and SQLite text (no representation, as the property states)",
        "SQLite literals are additionally decoded by the real engine 3.40.1 (SELECT <literal>, DEFAULT read back)",
    ],
    "design_ref": "DESIGN.md §5 C03, Appendix A",
    "level_text": "Each rendered literal is lexed by an independent model of the target engine's lexer and must be exactly one literal token decoding to the supplied value, with the rest of the statement's token sequence unchanged (an early-closing literal changes the sequence); SQLite literals are also decoded by the real engine. Exploration with a bounded-exhaustive core is the right level because escaping can only fail on short sequences of escape-relevant characters, all of which are enumerated in every position.",
    "level_note": "Trusted: the MySQL and Postgres lexer models (no such engines in the sandbox). Decides only the values and positions executed.",
}

CHECKS["C04"] = {
    "parts": BASE,
    "level": "exploration",
    "technique": "runtime monitor: dialect lexers decode every rendered identifier; marker-vs-hostile token-sequence comparison over 62 identifier positions; SQLite catalogue / column-name read-back",
    "rule": "inputs: every non-empty string over the 13-symbol identifier alphabet {\" ` ' \\ space ; - . [ ] a e-acute *} up to length 3 (quick) / 4 (thorough) in each of 67 identifier positions of query and schema statements x 3 backends, plus random Unicode names up to 32 chars, one name in five handed over by a user-written Iden type that writes character by character, plus 13 names that come from #[derive(Iden)] / #[derive(IdenStatic)] enums and a unit struct (renamed variants with quote characters, in and out of last position) in 5 positions x 3 backends; non-trivial = the name contains a non-alphanumeric character; distinct = distinct (name, position, backend)",
    "assumptions": [
        "identifier lexical rules from the manuals: MySQL backtick with doubled backtick (no backslash escapes), Postgres/SQLite double quote with doubled double quote",
        "empty identifiers and NUL are outside the domain; a Postgres enum cast type ending in [] denotes the array form by documented convention",
        "SQLite: names are additionally read back from the engine (result column name, sqlite_master, pragma_table_xinfo)",
    ],
    "design_ref": "DESIGN.md §5 C04",
    "level_text": "Every identifier slot is rendered with hostile names and lexed with an independent model of the engine's lexer: the statement must keep the token sequence it has for a benign name and the slot must be one quoted-identifier token decoding to the supplied string; for SQLite the engine's own catalogue confirms the decoded name. Bounded-exhaustive over the quote-relevant alphabet because only short combinations of quote characters can break quoting.",
    "level_note": "Trusted: the MySQL/Postgres identifier lexing models. Positions covered are listed in the evidence (observed_sets.positions).",
}

CHECKS["C10"] = {
    "parts": BASE,
    "level": "exploration",
    "technique": "runtime monitor: sequential reference model of the INSERT builder checked after every call of bounded-exhaustive call histories (Result, unchanged-on-error, rendered VALUES list on 3 backends)",
    "rule": "histories: every sequence of length <= 4 (quick) / 5 (thorough) over 22 concrete calls (columns(0..3), values(0..3), values_panic(0..3), values_from_panic(1-2 rows), select_from(0..3 items), or_default_values, or_default_values_many(0|2)) plus random sequences of length 5..12; every cell carries a unique integer tag; non-trivial = history of >= 2 calls; distinct = distinct histories",
    "assumptions": ["values() after select_from() (and vice versa) replaces the source kind (last writer wins), as the code does and the docs do not forbid"],
    "design_ref": "DESIGN.md §5 C10",
    "level_text": "A small executable model of the builder state (columns, source, default rows) predicts the Result of every call and the exact rows x columns of every rendering; the real builder is compared with it after every call of every history up to the bound. Exploration is right: the contract is over call histories and the interesting ones are short.",
    "level_note": "Trusted: the 60-line model in c10.rs and the dialect lexer used to read the VALUES list back.",
}

CHECKS["C11"] = {
    "parts": BASE,
    "level": "exploration",
    "technique": "runtime monitor: independent reference template scanner vs cust_with_values / cust_with_expr(s) rendering in both modes, plus inject_parameters(build) == to_string",
    "rule": "(a) inject_parameters(build(stmt)) == to_string(stmt) for 150k (quick) / 2M (thorough) generated statements of all kinds on the three backends; (b) templates assembled from 14 piece kinds (words, numbers, operators, whitespace, commas, parentheses, quoted literals and identifiers containing marks and doubled quotes, delimited placeholders incl. repeated/reordered $n, doubled marks, the other dialect's mark, `$word`, lone `$`): every piece sequence of length <= 4 (quick) / 5 (thorough) x 3 backends, random templates of up to 20 pieces incl. SQLite [bracket] identifiers, nested / doubled closing brackets, Postgres words that contain `$<digits>` (one identifier, nothing to substitute), a mark's number running into a word (`$1st`, `$1$2`), templates without a trailing blank and ending in a lone `$`, stand-alone characters from outside ASCII's classes; inject_parameters applied to the template text itself (a numbered placeholder possibly used twice); the statically dispatched to_string is compared as an entry point of its own; values are tagged integers, strings containing marks and quotes, or compound expressions; non-trivial = template has a placeholder or >= 2 piece kinds; distinct = distinct (template, backend)",
    "assumptions": [
        "placeholders and doubled marks are delimited from adjacent words (on Postgres `abc$$` is an identifier and `$1$$` is ambiguous, so such gluing is outside the domain)",
        "inject_parameters is checked only for statements whose text outside quotes contains no literal mark (a literal `?` in built SQL is indistinguishable from a placeholder by construction)",
    ],
    "design_ref": "DESIGN.md §5 C11",
    "level_text": "The rendered text and the returned Values of every generated template are compared byte-for-byte with the expansion computed by an independently written scanner (quoted runs copied, doubled mark -> one mark, ? positional, $n numbered, everything else copied). Bounded-exhaustive over piece sequences because substitution bugs depend on the local token context.",
    "level_note": "Trusted: the 90-line reference scanner in c11.rs. Sub-expressions substituted for placeholders are rendered by sea-query itself (stand-alone) and spliced by the reference.",
}

CHECKS["C19"] = {
    "parts": [{"variant": "gen19", "kind": "script", "script": "c19_driver.py"}],
    "level": "exploration",
    "technique": "runtime monitor over generated programs: type definitions are generated, compiled against /repo (the derive macros execute), run, and every observable is compared with an independent naming/quoting model",
    "rule": "programs: generated crates of ~300 (quick) / 16 x ~600 (thorough) enums, unit structs and enum_def structs with names from PascalCase / acronym / digit / underscore patterns and every accepted attribute combination (#[iden = ..], #[iden(rename = ..)], #[method = ..] / #[iden(method = ..)], #[iden(flatten)], enum_def prefix/suffix/table_name), with rename strings chosen so that both the derive's quoting fast path and the general path are taken; non-trivial = multi-word/acronym/digit name or any attribute option; distinct = distinct (name pattern, attribute combo, path kind)",
    "assumptions": [
        "snake_case model written independently in Python and cross-checked against heck 0.4 at generation time; a name on which they differ is discarded as ambiguous and counted",
        "only attribute forms that the existing derive tests show to be accepted are generated; a generated crate that fails to compile makes the run inconclusive, never a violation",
    ],
    "design_ref": "DESIGN.md §5 C19",
    "level_text": "The property quantifies over programs, so the monitor generates programs, lets rustc run the derive macros on them and compares Iden::to_string / unquoted / quoted / prepare (three quote styles) / IdenStatic::as_str of every generated type with the documented naming rules and with the general quoting path.",
    "level_note": "Trusted: the Python naming model in c19_driver.py and rustc. Raw identifiers (r#type) and flatten fields named `s` are outside the generated domain.",
}

CHECKS["C05"] = {
    "parts": [{"variant": "base"}, {"variant": "paren"}],
    "level": "exploration",
    "technique": "runtime monitor: per-dialect precedence/associativity parsers re-parse every rendered expression and compare with the built tree; SQLite evaluates rendering vs fully parenthesised reference over 64 operand rows; run with and without option-more-parentheses",
    "rule": "trees: every (frame, filler) pair of depth 2 — frames = each binary operator of the dialect with the hole left/right, NOT, BETWEEN e/lo/hi, LIKE e/pattern with and without ESCAPE, IN e/item, IS [NOT] NULL, function argument, CAST, CASE when/then/else, tuple; fillers = each operator applied to columns — and every depth-3 chain over precedence-class representatives, per dialect (17 common operators + 20 Postgres + 7 SQLite + 2 MySQL extension/custom operators), plus random trees of depth <= 6; non-trivial = depth >= 3; distinct = distinct (rendered text, dialect); both builds (default and option-more-parentheses) are summed",
    "assumptions": [
        "SQLite precedence from lang_expr.html (and the engine itself evaluates); PostgreSQL from the 15 operator table incl. non-associativity and gram.y's b_expr/a_expr split for BETWEEN; MySQL from sql_yacc.yy's expr/bool_pri/predicate/bit_expr levels, with LIKE's right operand accepted at bit_expr level (looser than the real grammar where unsure)",
        "IS / IS NOT with a non-keyword right operand is generated for SQLite only (MySQL and Postgres only have IS [NOT] NULL/TRUE/FALSE)",
    ],
    "design_ref": "DESIGN.md §5 C05, Appendix B",
    "level_text": "Every rendering is parsed by an independent strict model of the target engine's expression grammar and must yield exactly the tree that was built (extra parentheses are never an error); for SQLite the engine additionally evaluates the rendering against a fully parenthesised reference on 64 rows. Exhaustive over operator pairs and sides because parenthesis dropping is decided pairwise.",
    "level_note": "Trusted: the MySQL and Postgres precedence models in vcore/px.rs (no such engines available); for SQLite the engine closes the gap.",
}

CHECKS["C12"] = {
    "parts": [{"variant": "base"}, {"variant": "hash"}],
    "level": "exploration",
    "technique": "runtime monitor: bitwise round-trip identity Value::from(x).unwrap::<T>() == x with hand-written expected variants, full (source variant x target type) extraction matrix, tuple arity/order, as_null/dummy_value discriminant checks; run with and without hashable-value",
    "rule": "values: exhaustive bool/i8/u8/i16/u16/char; boundaries + 1e6 random for 32/64-bit integers; f32 structured + 2^22 random bit patterns (quick) / all 2^32 (thorough); f64 structured + random; strings, bytes, Cow/&str, JSON, chrono, time, Decimal, BigDecimal, Uuid (+fmt types), IpNetwork, MacAddress, Vector, Vec<T> arrays, Option<T> of each; 278 x 137 extraction matrix; tuples of arity 1..12; non-trivial = every (type, value) pair; distinct = distinct (type, value bits), capped per shard (the cap is reported)",
    "assumptions": ["identity is bitwise (to_bits for floats, component-wise for date/time, (bigint, scale) for BigDecimal)", "hand-built heterogeneous arrays are outside the domain"],
    "design_ref": "DESIGN.md §5 C12",
    "level_text": "The conversion round trip is executed for every value of the small types and large samples of the others and compared bitwise; every mismatched (variant, type) extraction must fail. Exploration is the right level for macro-generated per-type impls: each impl is exercised exhaustively or densely.",
    "level_note": "Trusted: the per-type expected-variant table in c12.rs (exhaustive matches make a new variant a build error).",
}

CHECKS["C18"] = {
    "parts": [{"variant": "hash"}],
    "level": "exploration",
    "technique": "runtime monitor: Eq/Hash laws checked on all pairs (and triples) of a 515-value pool against an independent three-valued payload-equality oracle, under three hashers, plus HashSet/HashMap class counts",
    "rule": "pool of 515 values (every variant and ArrayType, NULLs, NaNs with different payloads/signs, +-0, infinities, subnormals, nested arrays, JSON with different key orders, vectors) built twice independently; all 265,225 ordered pairs; transitivity on a 2M triple sample + all same-variant triples (quick) / all 515^3 triples (thorough); 1573 value tuples; non-trivial = pairs of the same variant",
    "assumptions": ["bitwise-equal payloads must be equal; numerically-equal-but-bitwise-different payloads (+0/-0, NaN payloads, JSON 1 vs 1.0, equal instants under different offsets, decimals of different scale) may compare either way as long as the laws and hash agreement hold"],
    "design_ref": "DESIGN.md §5 C18",
    "level_text": "Equivalence-relation laws, variant separation, payload agreement and hash agreement are executed for every pair of a pool constructed to contain every special case the hand-written match must handle; exhaustive over the pool, which is the finite space the property names.",
    "level_note": "Trusted: the independent oracle in c18.rs. Only the pool's values are decided.",
}

CHECKS["C06"] = {
    "parts": BASE,
    "level": "exploration",
    "technique": "runtime monitor: Kleene three-valued reference evaluator vs rows selected by the real SQLite engine over all 81 assignments of {1,0,NULL} to four atoms, for bounded-exhaustive condition-tree shapes and call histories in 7 statement contexts, inline and parameterised",
    "rule": "cases: every tree shape (any/all x negate x 0..3 members; member = leaf or group) of depth <= 2 / width <= 3 (20,896 shapes) as one cond_where in SELECT..WHERE, plain and wrapped in a negated group (separates FALSE from NULL), 10% (quick) / all (thorough) of them in another context (DELETE, UPDATE, JOIN ON incl. cross join, HAVING, CASE WHEN with / without ELSE, hidden and_or_where AND-chain, ON CONFLICT .. DO UPDATE .. WHERE); every call history of length 0..3 over cond_where(depth-1 shape) / and_where / and_where_option(None|Some); every depth-3 width<=2 shape (thorough); random trees of depth <= 6, width <= 5. Leaves take 15 syntactic forms (col = 1, bare column, NOT col, IS NULL, ABS(col), IN (1), CASE, TRUE, FALSE, <> 0, an OR-shaped and an AND-shaped expression, `x = 1 OR column`, custom SQL fragments with a top-level OR / NOT). Groups are built through equivalent API routes (polarity by 1 or 3 / 0 or 2 not() calls, before or after the members; add / add_option(Some); a lone group handed directly to JOIN / CASE WHEN). Atoms and forms of the exhaustive shapes are drawn at random. Non-trivial = every executed (context, history); distinct = distinct (context, history text)",
    "assumptions": [
        "depth 3 x width 3 (~1e13 shapes) is sampled only — the property's own bound is not reached there",
        "truth of a row = the row is selected / deleted / updated / flagged; NULL vs FALSE is separated by also checking the negated history",
    ],
    "design_ref": "DESIGN.md §5 C06",
    "level_text": "The rows a real engine selects are compared with a 15-line Kleene evaluator for every assignment of the atoms, for every tree shape up to the bound and every short call history, in every statement context that takes conditions. This is the truth-table comparison the property calls for.",
    "level_note": "Trusted: the Kleene model and SQLite 3.40.1's evaluation of the leaf forms. MySQL/Postgres renderings of conditions share the code path; their parenthesisation is covered by C05.",
}

CHECKS["C07"] = {
    "parts": BASE,
    "level": "exploration",
    "technique": "runtime monitor: generated statements are executed on the real SQLite engine in inline form, in parameterised form with bound values, and as an independently written fully explicit reference rendering; acceptance, result rows and table snapshots must agree; clause-ablation sensitivity audit",
    "rule": "statements from a scope-aware weighted generator over the fixture schema t1..t4 (SQLite-supported feature set: DISTINCT, expressions, aliases, FROM table/alias/subquery, INNER/LEFT/RIGHT/FULL/CROSS joins, WHERE, GROUP BY, HAVING, UNION/UNION ALL/INTERSECT/EXCEPT chains, ORDER BY with NULLS FIRST/LAST and FIELD order, LIMIT/OFFSET, inline and named window functions with frames, plain/recursive/[NOT] MATERIALIZED CTEs on all statement kinds, INSERT VALUES/SELECT/DEFAULT VALUES, REPLACE, ON CONFLICT variants, UPDATE..FROM, ORDER BY/LIMIT on UPDATE/DELETE, RETURNING); builder routes (column/expr, and_where/cond_where, join/join_as, ...) drawn at random; non-trivial = >= 3 clause kinds or a DML statement that changes rows; distinct = distinct reference texts",
    "assumptions": [
        "executions are made deterministic: LIMIT/OFFSET only with an ORDER BY over every output column, DML LIMIT ordered by the primary key, total window orders before ROWS frames, no RANDOM()/CURRENT_*; rows are compared as lists only when the order is total, else as multisets",
        "engine-executed reals are non-integral dyadic values (an integral f64 such as 1.0 is inlined as `1`, an INTEGER literal, by design of Rust's float formatting; that spelling difference is outside this check)",
        "INSERT..SELECT..ON CONFLICT gets a WHERE clause (SQLite's documented parsing ambiguity); a reference statement the engine rejects makes the case inconclusive, never a violation",
    ],
    "design_ref": "DESIGN.md §5 C07, Appendix D",
    "level_text": "Only execution decides meaning: every generated statement runs three ways on the same in-memory database inside a savepoint and the outcomes (accept/reject, rows, RETURNING rows, snapshots of all tables, runtime errors) must be identical. The audit counters report, per clause kind, how often dropping that clause from the reference changes the outcome, i.e. how visible a dropped clause would be.",
    "level_note": "Trusted: the reference renderer (refsql.rs, written from the SQLite grammar) and SQLite 3.40.1. Decides only the statements executed.",
    "min_nontrivial": 500,
}

CHECKS["C01"] = {
    "parts": BASE,
    "level": "exploration",
    "technique": "runtime monitor: dialect lexer counts/numbers placeholders; a custom SqlWriter records the text/parameter event stream of the build; returned Values are compared with the reading-order values of an independent reference renderer; left-context check per placeholder",
    "rule": "statements of all four kinds (+ WITH) from the scope-aware generator, nesting depth <= 4 (subqueries in FROM/IN/EXISTS/scalar position, set operations, plain and recursive CTEs, CASE, value lists, LIMIT/OFFSET, window frames with numeric bounds, upsert with conditions, RETURNING), dialect-specific feature sets for MySQL/Postgres/SQLite plus a portable statement rendered on all three, all value types (tagged: every value unique within its statement), builder routes drawn at random (every method that has an equivalent spelling is one route: the ExprTrait / Expr / SimpleExpr homes of each operator method, shorthands, plural forms, constructors, a WITH clause attached from outside through WithQuery); values include the ten chrono / time types, the NULL of every optional type and JSON documents of every kind; non-trivial = >= 2 values and (nesting depth >= 1 or a MySQL UPDATE..JOIN re-routing); distinct = distinct (parameterised text, backend)",
    "assumptions": [
        "the expected order of values is the reading order of the reference rendering (refsql.rs), which repeats an expression's values wherever the dialect's form repeats the expression (ORDER BY FIELD, MySQL NULLS emulation) and includes the two synthetic values of the documented empty-IN encoding",
        "Order::Field lists and LIKE ESCAPE characters are inlined in both modes by design and never expected in Values",
    ],
    "design_ref": "DESIGN.md §5 C01",
    "level_text": "Each build is checked four ways at the public boundary: placeholder tokens outside quoted text are exactly `?` x n or $1..$n; the text/param event stream observed by a custom SqlWriter reproduces the returned SQL and Values; the Values equal, in order, the values the spec supplied to rendered clauses; and each placeholder follows the same token as in the reference. Exploration over a generator biased to nested shapes is the right level for a counter/ordering property.",
    "level_note": "Trusted: the reference renderer's clause order per dialect (DESIGN Appendix C/F) and the dialect lexers.",
    "min_nontrivial": 300,
}

CHECKS["C02"] = {
    "parts": BASE,
    "level": "exploration",
    "technique": "runtime monitor: lexer-based substitution identity (parameterised text with backend literals spliced in == inline text), pairwise agreement of all public rendering entry points incl. WithQuery route and subquery embedding, idempotence/purity checks, and inline-vs-bound execution on SQLite",
    "rule": "the C01 statement stream (independent seed) for the three dialects plus SQLite-executable statements; per statement: 5 inline + 5 parameterised trait entry points + the inherent forms, rendered twice; WithQuery vs with_cte for statements with CTEs; every third SELECT embedded as a FROM-subquery; SQLite statements executed in both forms; each inlined literal compared (as decoded tokens) with an independent spelling of the bound value (R.literal; temporal values spelled from their components, under a local time zone of +05:30); R.continue: the rendered statement is built further (one more and_where) and must then render like a never-rendered clone built further the same way; fault injection: every fifth case is preceded by three renderings a backend refuses (it panics half-way: MySQL FULL OUTER JOIN, SQLite ANY(subquery)) — nothing may be left behind; non-trivial = statement has >= 1 bound value; distinct = distinct (inline text, backend)",
    "assumptions": ["engine-executed values restricted to those for which the inline literal and the bound value are the same SQLite value (integers, text, blobs, non-integral dyadic doubles, NULL)"],
    "design_ref": "DESIGN.md §5 C02",
    "level_text": "The relation between the two rendering modes is checked as a relation: the inline text must be byte-identical to the parameterised text with value_to_string literals substituted at the placeholder tokens, every entry point must agree, a second rendering must be identical, the statement must compare equal to its pre-render clone, and on SQLite both forms must return the same rows and leave the same tables.",
    "level_note": "Trusted: dialect lexers for locating placeholders; SQLite 3.40.1 for R.rows. Literal correctness itself is C03's subject.",
    "min_nontrivial": 300,
}

CHECKS["C09"] = {
    "parts": BASE,
    "level": "exploration",
    "technique": "runtime monitor: the three backends' renderings of one portable statement are transliterated token-by-token to SQLite spelling (lexers decode/re-encode literals and identifiers; nothing but spelling is rewritten) and executed on the real SQLite engine; rows and table snapshots compared pairwise, both modes",
    "rule": "portable statements from the generator (SELECT with DISTINCT, expressions, aliases, inner/left/cross joins, FROM-subqueries, WHERE, GROUP BY, HAVING, flat set-operation chains, ORDER BY with NULLS FIRST/LAST and FIELD, LIMIT+OFFSET, subqueries, plain and recursive CTEs, CASE, IFNULL/COALESCE, GREATEST/LEAST, CHAR_LENGTH; INSERT VALUES/SELECT; UPDATE and DELETE with WHERE); 6 executions per statement (3 backends x inline/parameterised); non-trivial = >= 3 clause kinds; distinct = distinct SQLite renderings",
    "assumptions": [
        "transliteration rewrites only: identifier quotes, $n -> ?, literal syntax (decoded with the source dialect's rules, re-encoded for SQLite), parentheses around set-operation operands, VALUES ROW(..) -> VALUES (..), and the documented function names GREATEST/LEAST -> MAX/MIN, CHAR_LENGTH -> LENGTH, RAND -> RANDOM; MySQL's `expr IS NULL ASC, expr` emulation is left as is, because its equivalence is under test",
        "a statement whose SQLite rendering the engine rejects is inconclusive here (it is C07's subject)",
    ],
    "design_ref": "DESIGN.md §5 C09",
    "level_text": "The relation between the three outputs of one statement is executed: after a purely lexical transliteration all six renderings must return identical rows (ordered where the order is total) and leave identical tables on the same fixture, whose order columns contain NULLs and ties so that NULL-ordering emulations are observable.",
    "level_note": "Trusted: the dialect lexers/decoders used for transliteration and SQLite as the common executor (MySQL/Postgres engines are not available; engine-specific semantics beyond syntax are out of reach).",
    "min_nontrivial": 200,
}

CHECKS["C08"] = {
    "parts": BASE,
    "level": "exploration",
    "technique": "runtime monitor: strict recursive-descent grammar models of MySQL 8.0 and PostgreSQL 15 DML (vcore/stmt.rs + px.rs) parse the rendered statement and an independent reference rendering of the same builder calls; the clause trees must be equal; grammar calibrated on the maintainers' 289 expected SQL strings",
    "rule": "statements from the generator with each dialect's supported feature set (select list with OVER/AS, FROM with aliases/subqueries, joins incl. MySQL CROSS JOIN, WHERE, GROUP BY, HAVING, named WINDOW, parenthesised set operations, ORDER BY with NULLS (Postgres) or the `expr IS NULL` emulation (MySQL), LIMIT/OFFSET, lock clauses, index hints / TABLESAMPLE / DISTINCT ON, plain/recursive CTEs with SEARCH/CYCLE/MATERIALIZED, INSERT/REPLACE with VALUES/SELECT/default rows, ON DUPLICATE KEY UPDATE vs ON CONFLICT, RETURNING, UPDATE..JOIN..ON vs UPDATE..FROM, DELETE/UPDATE with ORDER BY/LIMIT on MySQL), inline and parameterised; non-trivial = >= 3 clause kinds; distinct = distinct (inline text, dialect)",
    "assumptions": [
        "the grammar models (DESIGN Appendix F) are the trusted base: each clause at most once, in grammar position; dialect-specific constructs are rejected in the other dialect (RETURNING / ON CONFLICT / NULLS FIRST / DISTINCT ON / TABLESAMPLE / ILIKE in MySQL; ON DUPLICATE KEY / ROW(..) / index hints / UPDATE..JOIN in Postgres)",
        "calibration: the model accepts 288 of the 289 statements asserted in /repo/tests/*/query.rs (used as data); the one reviewed rejection is Postgres UPDATE..ORDER BY..LIMIT",
        "Postgres CROSS JOIN is outside the generated set (listed finding, pinned probe)",
    ],
    "design_ref": "DESIGN.md §5 C08, Appendix F",
    "level_text": "Completeness, uniqueness and order of clauses are decided by parsing: the rendered text must be derivable by the dialect grammar and its clause tree must equal that of an independently written rendering of the same spec, so a dropped, duplicated, misplaced or re-ordered clause or item shows as a tree difference or a parse failure.",
    "level_note": "Trusted: the MySQL/Postgres grammar models and the reference renderer's per-dialect forms (no such engines in the sandbox).",
    "min_nontrivial": 300,
}

CHECKS["C15"] = {
    "parts": BASE,
    "level": "exploration",
    "technique": "runtime monitor: branching replay of call histories built from pre-built arguments — at every prefix position take(), clone (both directions) and every clear_*/reset_* are applied and compared (== / Debug / renderings on 3 backends) with the statement rebuilt from the same history, for clear operations with that clause's calls filtered out",
    "rule": "histories of length <= 12 (quick) / 25 (thorough) over 25 SelectStatement call kinds (expr/column/expr_as/distinct/from/from_subquery/join/and_where/cond_where incl. member-less and negated groups/group/having/order/limit/offset/union/lock/index hint/table sample/distinct_on/window/with_cte) and shorter histories for WindowStatement, Insert/Update/Delete (Clone, clear_order_by), ColumnDef, TableCreate/Alter/Drop/Rename/Truncate, IndexCreate, ForeignKeyCreate; branching at every position; non-trivial = history of >= 3 calls; distinct = distinct (type, history)",
    "assumptions": [
        "schema statements have no PartialEq: equality there is Debug equality plus identical renderings",
        "`==` between statements is only used between statements whose identifiers are of the same Rust type (SeaRc::eq compares vtable addresses)",
    ],
    "design_ref": "DESIGN.md §5 C15",
    "level_text": "The executable meaning of 'removes exactly that clause and nothing else' is 'equals the statement built from the same history without that clause's calls'; of take 'the taken value equals the value before, and continuing on it ends where the unbranched history ends, and the source equals a new statement'; of clone 'later changes to either never show in the other'. Each is checked at every position of every generated history.",
    "level_note": "Trusted: the per-call clause labels in c15.rs (which calls belong to which clearable clause).",
}

CHECKS["C13"] = {
    "parts": [{"variant": "base"}, {"variant": "exact"}],
    "level": "exploration",
    "technique": "runtime monitor: generated SQLite schema statements are executed on the real engine; the engine's catalogue (pragma_table_xinfo, index_list, index_xinfo, foreign_key_list, sqlite_master) and behavioural probes (valid row accepted, NULL / CHECK-violating row rejected, defaults read back, typeof() of stored probes) are compared with the declared catalogue after every statement of a history; run on the default build and on a build with option-sqlite-exact-column-type (every integer type must then be declared exactly `integer`)",
    "rule": "(a) every SQLite-supported column type (34 parameterisations) x every ordered pair of column specifications from {NOT NULL, NULL, DEFAULT int/text/NULL/CURRENT_TIMESTAMP, UNIQUE, PRIMARY KEY, CHECK, COMMENT} plus the AUTOINCREMENT forms, as single-column tables; (b) random histories: 1-2 tables of 1-6 columns with random specification orders, table-level (composite) primary keys and named UNIQUE constraints with column directions (compared with the automatic indexes' directions), foreign keys with every action pair, table CHECKs, a second check() call on a column (probed by behaviour), one Index::create() builder reused across primary_key() and index(), generated columns, followed by up to 5 of ADD COLUMN / RENAME COLUMN / DROP COLUMN / RENAME TO / CREATE [UNIQUE] INDEX [IF NOT EXISTS] with ASC/DESC, prefix lengths (ignored by SQLite), odd names and partial predicates built by one to three and_where / cond_where calls / DROP INDEX / DROP TABLE [IF EXISTS]; schema-qualified (`main`) ALTER/RENAME/DROP targets, DROP TABLE IF EXISTS on an absent table, composite foreign keys built through from()/to() (single names and tuples) and from_col()/to_col(); column types through ColumnDef's setters or the constructor, statements through build / to_string / build_any and the TableStatement wrapper; both builds are summed; non-trivial = every executed history; distinct = distinct statement texts",
    "assumptions": [
        "intended affinity per abstract type is the table in ddl.rs (integer family -> INTEGER, float/double/decimal/money -> REAL, char/string/text/date-time/json/uuid/enum -> TEXT, binary/varbinary/blob -> BLOB, boolean -> NUMERIC), checked against SQLite's five type-name rules and, for unconstrained single-column tables, by typeof() of stored probes (INTEGER and NUMERIC store alike)",
        "SQLite semantics encoded in the oracle: an `integer` PRIMARY KEY column is a rowid alias (NULL/DEFAULT replaced by a fresh rowid); one automatic index per distinct UNIQUE column list and none for a list equal to the primary key; ADD COLUMN cannot add PRIMARY KEY/UNIQUE columns and needs a non-NULL literal default for NOT NULL",
        "foreign keys are compared through the catalogue (columns, target, actions); enforcement is not probed",
    ],
    "design_ref": "DESIGN.md §5 C13, Appendix E",
    "level_text": "Acceptance and the resulting catalogue can only be decided by executing and introspecting: after every statement the engine's own description of every table, index and foreign key must equal the declaration, and constraint behaviour must match on probe rows.",
    "level_note": "Trusted: SQLite 3.40.1 and the declared-catalogue model in c13.rs.",
    "min_nontrivial": 300,
}

CHECKS["C14"] = {
    "parts": BASE,
    "level": "exploration",
    "technique": "runtime monitor: strict recursive-descent DDL grammar models of MySQL 8.0 and PostgreSQL 15 (vcore/ddlparse.rs, incl. each dialect's type table) parse the rendered schema statement and an independent reference rendering of the same declaration; the element trees must be equal",
    "rule": "(a) every ColumnType parameterisation of each dialect (39 MySQL, 61 Postgres incl. every interval field set, given as the variant or parsed from its spelling) x every compatible column-specification sequence of length <= 2 (quick) / 3 (thorough) from {NOT NULL, NULL, DEFAULT int/text/NULL, UNIQUE, PRIMARY KEY, CHECK, COMMENT, auto increment} as CREATE TABLE, every third also as ALTER TABLE modify_column; (b) random statements of every kind: CREATE TABLE with 1-5 columns, table-level indexes / primary keys / foreign keys / checks / MySQL options, ALTER TABLE with 1-3 options (add/modify/rename/drop column, add/drop foreign key), RENAME, DROP TABLE, TRUNCATE, CREATE/DROP INDEX with every option, foreign-key create/drop, Postgres CREATE/ALTER/DROP TYPE and CREATE/DROP EXTENSION; schema-qualified tables wherever the backend accepts them, a second CHECK per column, MySQL COLLATE as free-form column text, Postgres ALTER COLUMN .. TYPE .. USING, every statement through one of build / to_string / build_any / the TableStatement wrapper, column types through ColumnDef's setters or the constructor; non-trivial = every matched statement; distinct = distinct (rendered text, dialect)",
    "assumptions": [
        "the DDL grammar and type tables of DESIGN Appendix G are the trusted base (e.g. MySQL varchar needs a length, Postgres money takes no parameters, column COMMENT / AUTO_INCREMENT are MySQL only, VIRTUAL generated columns do not exist in Postgres)",
        "expected type mapping (lengths, precision and unsigned-ness preserved; serial types replace the type on Postgres auto increment) is the table in refddl.rs; unspecified string lengths follow the crate's documented defaults (varchar(255))",
        "types a dialect has no counterpart for (MySQL interval/array/vector/network types, Postgres year) are outside the generated set",
    ],
    "design_ref": "DESIGN.md §5 C14, Appendix G",
    "level_text": "Well-formedness and completeness of schema statements are decided by parsing with a strict model of the dialect's DDL grammar and comparing the parsed elements (columns with one type and each specification once, table-level indexes / keys / checks, options, ALTER action lists with their separators) with those of an independently written rendering of the same declaration.",
    "level_note": "Trusted: the MySQL/Postgres DDL grammar models and type tables (no such engines in the sandbox).",
    "min_nontrivial": 500,
}

CHECKS["C20"] = {
    "parts": [{"variant": "ts", "kind": "script", "script": "c20_driver.py", "timeout_quick": 2400, "timeout_thorough": 4 * 3600}],
    "level": "other",
    "technique": "compile gate of a thread-shipping workload (a Send/Sync bound error is the violation witness) + sanitizers on its execution: Miri's data-race/UB interpreter over several schedule seeds, ThreadSanitizer (thorough), and a native many-thread run comparing every cross-thread rendering with the single-threaded one",
    "rule": "every public statement / expression / condition / value / identifier type found by scanning /repo/src for `pub struct|enum` (131 names: 125 shipped with a non-trivial nested instance, 6 without public constructor gated at compile time only); each instance is built on one thread, moved through a channel, shared via Arc with N workers that render on three backends, clone, compare (==, exercising the unsafe transmute in SeaRc::eq) and drop concurrently; an async fn builds a value, is suspended across an await point and completed on another thread by a hand-written block_on; extra rows: a 400-level nested expression walked by all workers at once (renderings in flight add up to thousands of levels), inject_parameters over shared input preceded each time by a call given too few values (fault injection: it panics for that caller only); the by-value iterator type of ValueTuple is part of the compile gate; distinct_nontrivial = number of distinct types shipped",
    "explanation": "Send + Sync is a type-level fact: the workload only compiles if every listed type satisfies the bounds under feature thread-safe (with all optional value-type features), so a type-level break is reported as a violation with the rustc diagnostic (E0277) as witness; the compile gate is not an observed execution and the evidence keeps it apart from the dynamic stages. An unsound `unsafe impl Send/Sync` shows up dynamically: Miri (data race / UB, quick: 16 executions over reduced instances, thorough: ~300), ThreadSanitizer (thorough, 5 repetitions, -Zbuild-std) and the native run (12-16 threads, renderings compared). `dyn QueryBuilder`/`dyn SchemaBuilder` trait objects carry no Send/Sync bound and are outside the property's quantifier.",
    "assumptions": [
        "Miri is ~4 orders of magnitude slower than native here, so Miri rows use structurally identical but smaller instances (listed in the evidence as miri_rows_run)",
        "a build failure that is not a Send/Sync bound error is inconclusive, never a violation",
    ],
    "design_ref": "DESIGN.md §5 C20, §1",
    "level_text": "The property is a type-level fact that only the compiler can discharge, so the deciding step is a compile gate over a hand-maintained, scan-cross-checked list of every public type; the runtime part (Miri race detector, TSan, native cross-thread rendering) watches the actual sharing of the reference-counted identifiers for an unsound unsafe impl. Category `other` because the gate is not an exploration of executions.",
    "level_note": "Trusted: rustc's trait solver for the gate; Miri and TSan for the dynamic part. Validated on scratch mutants: Rc + unsafe impl Send/Sync is reported by Miri and TSan at SeaRc::clone, Rc without the impls and a non-Send field in WindowStatement are reported by the gate.",
    "min_nontrivial": 50,
}

# Supplementary Miri slices (DESIGN §6): thorough tier only; they watch the pure-Rust paths for undefined
# behaviour (today the one `unsafe` block, the transmute in SeaRc::eq, is on C15's path).
MIRI = {"variant": "miri", "kind": "script", "script": "pure_miri.py", "thorough_only": True}
for _p in ("C12", "C15", "C16", "C17"):
    CHECKS[_p]["parts"] = list(CHECKS[_p]["parts"]) + [MIRI]
    CHECKS[_p]["technique"] += "; thorough tier adds a Miri (UB interpreter) slice of the same operations"
