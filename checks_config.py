"""Per-property configuration shared by ./check and gen_manifest.py."""

BASE = [{"variant": "base"}]

CHECKS = {
    "C16": {
        "parts": BASE,
        "level": "exploration",
        "technique": "runtime monitor: step-bounded tokenizer driver + losslessness/quoted-run oracle (bounded-exhaustive + random inputs)",
        "rule": "inputs: every string over the 15-symbol token alphabet {space TAB a 1 _ $ ? , ' \" ` [ ] \\ e-acute} up to length 5 (quick) / 7 (thorough), random Unicode strings up to 300 chars, and constructed prefix+quoted-run+suffix inputs; a case is non-trivial when it tokenizes into >= 2 tokens; distinct = distinct input strings (hashed)",
        "assumptions": [
            "reference for quoted runs is the construction itself: the run is assembled from pieces (plain chars, doubled delimiter, backslash-escaped delimiter, escaped backslash, marks) so its end is known without re-implementing the tokenizer",
            "a hang inside one tokenizer call is reported after 30 s without progress (normal cost is microseconds)",
        ],
        "design_ref": "DESIGN.md §5 C16",
        "level_text": "Every tokenizer execution is driven step by step under a step bound (chars+1) and checked for losslessness, non-empty tokens and quoted-run integrity; the input space is enumerated exhaustively to length 5/7 over the token-relevant alphabet and sampled beyond. Exploration is the right level: the property is a universally quantified statement over strings whose interesting cases are short.",
        "level_note": "Trusted: the harness's own string enumeration and the piecewise construction of quoted runs. Decides only the inputs executed.",
    },
    "C17": {
        "parts": BASE,
        "level": "exploration",
        "technique": "runtime monitor: round-trip identity oracle over bounded-exhaustive and random strings on the three real backends",
        "rule": "inputs: every string over the 18-symbol escape alphabet {\\ ' \" NUL BS TAB LF CR SUB 0 b t z n r a e-acute %} up to length 4 (quick) / 6 (thorough) plus random Unicode strings, each on MySQL, Postgres and SQLite; non-trivial = escape_string changed the input; distinct = distinct (input, backend)",
        "assumptions": ["identity is checked on Rust Strings (exact code points)"],
        "design_ref": "DESIGN.md §5 C17",
        "level_text": "unescape_string(escape_string(s)) == s is executed on the real backends for every string of the bounded space and a large random sample; exploration is appropriate because inverse-ness can only break on short escape-relevant sequences, which are enumerated exhaustively.",
        "level_note": "Decides only the strings executed; no model is involved (pure identity law).",
    },
}
