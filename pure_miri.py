#!/usr/bin/env python3
"""Supplementary Miri slice (DESIGN §6) for C12 / C15 / C16 / C17: runs pure/misc under
`cargo +nightly miri run` (default features and with thread-safe). A Miri report of undefined behaviour
or a data race is a violation; any other failure is inconclusive.
usage: pure_miri.py <PROP> <quick|thorough> --out <part.json> --seed <int>"""
import json, os, subprocess, sys, time, re
prop, tier = sys.argv[1], sys.argv[2]
out = sys.argv[sys.argv.index("--out") + 1]
seed = int(sys.argv[sys.argv.index("--seed") + 1]) if "--seed" in sys.argv else 1
root = os.path.dirname(os.path.abspath(__file__))
crate = os.path.join(root, "pure", "misc")
n = {"quick": 15, "thorough": 120}[tier]
env = dict(os.environ, CARGO_NET_OFFLINE="true", CARGO_TARGET_DIR=os.path.join(root, "harness", "target", "misc-miri"), MIRIFLAGS=f"-Zmiri-seed={seed % 1000}")
subprocess.run(["cp", "-f", "/repo/Cargo.lock", os.path.join(crate, "Cargo.lock")])
t0 = time.time()
checks, runs, viol, inconc = 0, 0, [], []
for feats in ([], ["--features", "ts"]):
    cmd = ["cargo", "+nightly", "miri", "run", "--offline"] + feats + ["--", prop, str(n)]
    try:
        p = subprocess.run(cmd, cwd=crate, env=env, capture_output=True, text=True, timeout=3600)
    except subprocess.TimeoutExpired:
        inconc.append("miri run timed out")
        continue
    txt = p.stdout + p.stderr
    m = re.search(r"DONE checks=(\d+)", txt)
    if p.returncode == 0 and m:
        checks += int(m.group(1)); runs += 1
    elif "Undefined Behavior" in txt or "Data race detected" in txt:
        first = next((l for l in txt.splitlines() if "Undefined Behavior" in l or "Data race" in l), "UB")
        frame = next((l.strip() for l in txt.splitlines() if "/repo/src/" in l), "")
        viol.append({"rule": "R.miri", "backend": "-", "signature": f"{first.strip()[:120]} @ {frame[:100]}", "detail": {"features": feats, "report": txt[-4000:]}})
    else:
        inconc.append(f"miri run failed (exit {p.returncode}): {txt[-400:]}")
replays = []
os.makedirs("/verif/replays", exist_ok=True)
for i, v in enumerate(viol):
    path = f"/verif/replays/{prop}-miri-{seed}-{i}.json"
    json.dump({"property": prop, "variant": "miri", "tier": tier, "seed": seed, "violation": v}, open(path, "w"), indent=1)
    print(f"VIOLATION property={prop} replay={path}")
    print(f"  rule=R.miri signature={v['signature']}")
for m in inconc:
    print(f"INCONCLUSIVE: {m[:300]}")
part = {"property": prop, "variant": "miri", "tier": tier, "seed": seed, "shards": 2, "wall_s": round(time.time() - t0, 1),
        "report": {"evaluations": checks, "distinct_nontrivial": 0, "counters": {"miri_runs_ok": runs, "miri_checks": checks},
                   "observed_sets": {}, "samples": [{"miri_slice": f"pure/misc {prop} n={n}, default features and thread-safe", "checks_executed_under_miri": checks}],
                   "inconclusive": {m[:80]: 1 for m in inconc}, "exhaustive_parts": []},
        "violations_new": viol, "violations_new_count": len(viol), "known_hits": [], "harness_errors": inconc}
os.makedirs(os.path.dirname(out), exist_ok=True)
json.dump(part, open(out, "w"), indent=1)
print(f"[{prop} miri {tier}] miri_runs={runs} checks={checks} violations={len(viol)} wall={part['wall_s']}s")
sys.exit(1 if viol else 2 if inconc else 0)
