#!/usr/bin/env python3
"""C20 monitor driver: "with `thread-safe`, every builder and statement type is Send + Sync".

usage: c20_driver.py C20 <quick|thorough> --out <part.json> --seed <int> [--replay <file>]

Stages (all offline, every build rebuilt from the working tree of $C20_REPO, default /repo):
  (a) compile gate   cargo build of /verif/pure/c20 (thread-shipping workload; `T: Send + Sync`
                     is a bound of every table row).  E0277 Send/Sync diagnostic => VIOLATION.
  (b) native run     12-16 threads x many iterations over the whole type table; a MISMATCH line
                     or a crash => VIOLATION.
  (c) Miri           reduced row set x schedule seeds (-Zmiri-many-seeds), data race / UB report
                     => VIOLATION.
  (d) TSan           thorough only, -Zbuild-std, 5 repetitions, data race report => VIOLATION.
Exit 0 held / 1 violation (VIOLATION line printed) / 2 inconclusive.  python3 stdlib only.
Build output lives under /verif/harness/target/c20-* only.
"""
import json
import os
import re
import shutil
import subprocess
import sys
import time

ROOT = os.path.dirname(os.path.abspath(__file__))
CRATE_SRC = os.path.join(ROOT, "pure", "c20")
TARGET = os.path.join(ROOT, "harness", "target")
REPLAYS = os.path.join(ROOT, "replays")
FINDINGS = os.path.join(ROOT, "known_findings.json")
DEFAULT_REPO = "/repo"
REPO = os.path.abspath(os.environ.get("C20_REPO", DEFAULT_REPO))

# Rows executed under Miri (exact row names of pure/c20/src/table.rs), grouped so that every
# group costs roughly 15-25 s per schedule seed; every (group, seed range) is one Miri process.
# `--lite` instances: same nesting (subquery, CTE, condition tree, CASE, ON CONFLICT, values of
# optional types, shared DynIdens) with few leaves; one `build` per rendering.
MIRI_GROUPS_QUICK = [
    ["SelectStatement"],
    ["WithQuery", "SeaRc", "ColumnType/Array"],
    ["InsertStatement", "Values", "TableCreateStatement"],
    ["UpdateStatement", "TypeCreateStatement", "ForeignKeyCreateStatement"],
]
MIRI_GROUPS_EXTRA = [  # thorough only, fewer seeds
    ["DeleteStatement", "IndexCreateStatement", "Alias"],
    ["SimpleExpr"],
    ["CaseStatement", "FunctionCall", "OnConflict"],
    ["WindowStatement", "SqlWriterValues", "ColumnDef", "ColumnRef/TableColumn"],
    ["TableRef/SubQuery"],
    ["Condition", "TableAlterStatement"],
    ["SimpleExpr/deep", "inject_parameters"],
]

TIERS = {
    "quick": dict(miri_main_groups=4, native_timeout=600, tsan_timeout=300, native_threads=12, native_iters=100, miri_seeds=4, miri_procs_per_group=1, miri_extra_seeds=0,
                  miri_threads=3, miri_iters=1, tsan_runs=0, tsan_threads=8, tsan_iters=10),
    # thorough: 64 seeds on the first three groups, 8 seeds on every other group (~8 min of Miri on 16 cores)
    "thorough": dict(miri_main_groups=3, native_timeout=3600, tsan_timeout=300, native_threads=16, native_iters=1000, miri_seeds=64, miri_procs_per_group=4, miri_extra_seeds=8,
                     miri_threads=3, miri_iters=1, tsan_runs=5, tsan_threads=8, tsan_iters=10),
}

BASE_ENV = dict(os.environ)
BASE_ENV.update({"CARGO_NET_OFFLINE": "true", "RUST_BACKTRACE": "0", "CARGO_TERM_COLOR": "never"})
for k in ("RUSTFLAGS", "MIRIFLAGS", "CARGO_TARGET_DIR", "TSAN_OPTIONS"):
    BASE_ENV.pop(k, None)


def say(s):
    print(s, flush=True)


def clean(text):
    """drop the sandbox's conda warning lines"""
    return "\n".join(l for l in text.splitlines() if not l.startswith("WARNING conda"))


def run(cmd, cwd, env_extra=None, timeout=None):
    e = dict(BASE_ENV)
    if env_extra:
        e.update(env_extra)
    t0 = time.time()
    try:
        p = subprocess.run(cmd, cwd=cwd, env=e, stdout=subprocess.PIPE, stderr=subprocess.STDOUT, text=True,
                           errors="replace", timeout=timeout)
        return p.returncode, clean(p.stdout), time.time() - t0
    except subprocess.TimeoutExpired as ex:
        out = ex.stdout if isinstance(ex.stdout, str) else (ex.stdout or b"").decode(errors="replace")
        return -999, clean(out), time.time() - t0


# --------------------------------------------------------------------------------------------
# crate location (C20_REPO support) and the scan for uncovered public types
# --------------------------------------------------------------------------------------------

def prepare_crate():
    """returns (crate_dir, target_prefix).  Default: the crate as checked in (path dep /repo).
    With C20_REPO=<dir> a scratch copy whose sea-query path points at <dir> is generated."""
    if REPO == DEFAULT_REPO:
        crate, prefix = CRATE_SRC, os.path.join(TARGET, "c20-")
    else:
        alt = os.path.join(TARGET, "c20-alt")
        crate, prefix = os.path.join(alt, "crate"), os.path.join(alt, "t-")
        if os.path.isdir(crate):
            shutil.rmtree(crate)
        os.makedirs(alt, exist_ok=True)
        shutil.copytree(CRATE_SRC, crate, ignore=shutil.ignore_patterns("target"))
        toml = open(os.path.join(crate, "Cargo.toml")).read()
        new = toml.replace('path = "/repo"', 'path = "%s"' % REPO)
        if new == toml:
            raise RuntimeError("could not rewrite the sea-query path in Cargo.toml")
        open(os.path.join(crate, "Cargo.toml"), "w").write(new)
    lock = os.path.join(crate, "Cargo.lock")
    if not os.path.exists(lock):
        shutil.copy(os.path.join(REPO, "Cargo.lock"), lock)
    return crate, prefix


ROW_RE = re.compile(r'row!\(\s*rig,\s*"([A-Za-z][\w/.-]*)"')


def table_rows_from_source(crate):
    """(row names, gate-only names) read from the crate's table.rs (works even if the build fails)"""
    try:
        txt = open(os.path.join(crate, "src", "table.rs")).read()
    except OSError:
        return [], []
    rows = ROW_RE.findall(txt)
    m = re.search(r"GATE_ONLY: &\[&str\] = &\[([^\]]*)\]", txt)
    gate_only = re.findall(r'"([^"]+)"', m.group(1)) if m else []
    return rows, gate_only


PUB_RE = re.compile(r"^\s*pub\s+(?:struct|enum)\s+([A-Za-z_][A-Za-z0-9_]*)", re.M)


def scan_public_types():
    """names of `pub struct|enum` under <repo>/src (tests_cfg.rs is behind the test-only feature)"""
    found = {}
    src = os.path.join(REPO, "src")
    for d, _, files in os.walk(src):
        for f in files:
            if not f.endswith(".rs"):
                continue
            p = os.path.join(d, f)
            rel = os.path.relpath(p, REPO)
            if rel == os.path.join("src", "tests_cfg.rs"):
                continue
            try:
                txt = open(p, encoding="utf-8", errors="replace").read()
            except OSError:
                continue
            for m in PUB_RE.finditer(txt):
                found.setdefault(m.group(1), rel)
    return found


# --------------------------------------------------------------------------------------------
# violations
# --------------------------------------------------------------------------------------------

class State:
    def __init__(self, tier, seed, replay_mode):
        self.tier, self.seed, self.replay_mode = tier, seed, replay_mode
        self.violations = []  # dicts rule/backend/signature/shard/case/detail
        self.inconclusive = {}
        self.harness_errors = []
        self.counters = {}
        self.notes = []

    def violate(self, rule, signature, detail):
        if any(v["rule"] == rule and v["signature"] == signature for v in self.violations):
            for v in self.violations:
                if v["rule"] == rule and v["signature"] == signature:
                    v["detail"]["occurrences"] = v["detail"].get("occurrences", 1) + 1
            return
        detail = dict(detail)
        detail["occurrences"] = 1
        self.violations.append({"rule": rule, "backend": "*", "signature": signature, "shard": 0,
                                "case": len(self.violations), "detail": detail})

    def inconc(self, key, msg):
        self.inconclusive[key] = msg
        say(f"INCONCLUSIVE-PART {key}: {msg}")


def load_open_findings():
    try:
        j = json.load(open(FINDINGS))
    except Exception:
        return []
    return [f for f in j.get("findings", []) if f.get("status") == "open" and f.get("property") == "C20"]


def rel_repo(text):
    return text.replace(REPO + "/", "")


# --------------------------------------------------------------------------------------------
# (a) compile gate
# --------------------------------------------------------------------------------------------

SEND_SYNC_PATTERNS = [
    "cannot be sent between threads safely",
    "cannot be shared between threads safely",
    "`Send` is not implemented",
    "`Sync` is not implemented",
]


def norm_type(t):
    t = re.sub(r"\(dyn ([\w:]+) \+ 'static\)", r"dyn \1", t)
    return re.sub(r"\b(?:[a-z_]\w*::)+", "", t)


def classify_build_failure(log):
    """returns (is_send_sync_violation, root_causes, culprits, named_types, rows, first_lines).
    root cause = the non-Send/Sync type the compiler names; culprit = the innermost sea-query type
    that contains it (first sea_query type of each `required because it appears within` chain)."""
    has_e0277 = "E0277" in log
    hit = any(p in log for p in SEND_SYNC_PATTERNS) or bool(re.search(r"`(?:std::rc::)?Rc<[^`]*>`[^\n]*`(?:Send|Sync)`", log))
    roots, culprits = set(), set()
    for block in re.split(r"(?m)^(?=error(?:\[E\d+\])?:)", log):
        m = re.match(r"error\[E0277\]: `([^`]+)` cannot be (?:sent|shared) between threads safely", block)
        if not m:
            continue
        roots.add(norm_type(m.group(1)))
        c = re.search(r"appears within the type `(sea_query::[\w:]+)", block) or re.search(r"help: within `(sea_query::[\w:]+)", block)
        if c:
            culprits.add(norm_type(c.group(1)))
    named = set(re.findall(r"appears within the type `([^`]+)`", log))
    named |= set(re.findall(r"required for `([^`]+)` to implement `(?:Send|Sync)`", log))
    named |= set(re.findall(r"within `([^`]+)`, the trait `(?:Send|Sync)` is not implemented", log))
    public_named = sorted({norm_type(t) for t in named if re.match(r"^sea_query::[\w:]+$", t)})
    # the table rows / gate lines the diagnostics point at
    rows = set(re.findall(r"^\s*\d+\s*\|\s*(?:row!\(rig, \"([^\"]+)\"|gate::<([^>]+(?:<[^>]*>)?)>\(\);)", log, re.M))
    row_names = sorted({a or b for a, b in rows if a or b})
    start = log.find("error")
    lines = log[start:].splitlines()[:80] if start >= 0 else log.splitlines()[-80:]
    return (has_e0277 and hit), sorted(roots), sorted(culprits), public_named, row_names, lines


def stage_build(st, crate, prefix):
    tdir = prefix + "native"
    rc, log, dt = run(["cargo", "build", "--offline", "--profile", "verif"], crate, {"CARGO_TARGET_DIR": tdir}, timeout=1800)
    st.counters["native_build_s"] = round(dt, 1)
    if rc == 0:
        return os.path.join(tdir, "verif", "c20")
    viol, roots, culprits, named, rows, lines = classify_build_failure(log)
    if viol:
        sig = "E0277 not Send/Sync: " + ",".join(roots[:6]) + " inside " + ",".join(culprits[:8])
        st.violate("compile-gate", rel_repo(sig), {
            "stage": "build",
            "root_cause_types": roots,
            "innermost_sea_query_types": culprits,
            "public_types_that_lost_send_sync": named,
            "table_rows_or_gates_named": rows[:60],
            "diagnostic_first_lines": [rel_repo(l) for l in lines],
            "error_count": len(re.findall(r"^error\[E0277\]", log, re.M)),
        })
        return None
    say(rel_repo("\n".join(lines[:40])))
    st.harness_errors.append("native build failed without a Send/Sync diagnostic")
    return None


# --------------------------------------------------------------------------------------------
# (b) native run
# --------------------------------------------------------------------------------------------

def parse_run_output(out):
    shipped, mismatches, samples, done = [], [], {}, None
    for l in out.splitlines():
        if l.startswith("SHIPPED "):
            m = re.match(r"SHIPPED (\S+) threads=(\d+) iters=(\d+) renders_equal=(\d+) awaits=(\d+)", l)
            if m:
                shipped.append((m.group(1), int(m.group(2)), int(m.group(3)), int(m.group(4)), int(m.group(5))))
        elif l.startswith("MISMATCH "):
            mismatches.append(l)
        elif l.startswith("SAMPLE "):
            parts = l.split(" ", 2)
            if len(parts) == 3:
                samples[parts[1]] = parts[2]
        elif l.startswith("DONE "):
            m = re.match(r"DONE types=(\d+) total_renders=(\d+) awaits=(\d+) mismatches=(\d+)", l)
            if m:
                done = tuple(int(x) for x in m.groups())
    return shipped, mismatches, samples, done


def stage_native(st, binary, cfg, only=None):
    cmd = [binary, "--threads", str(cfg["native_threads"]), "--iters", str(cfg["native_iters"]), "--samples"]
    if only:
        cmd += ["--only", ",".join(only)]
    rc, out, dt = run(cmd, ROOT, timeout=cfg["native_timeout"])
    st.counters["native_run_s"] = round(dt, 1)
    shipped, mismatches, samples, done = parse_run_output(out)
    for l in mismatches[:50]:
        m = re.match(r"MISMATCH (\S+) .*?kind=(\S+)", l)
        row, kind = (m.group(1), m.group(2)) if m else ("?", "?")
        st.violate("native-mismatch", f"{row} {kind}", {"stage": "native", "line": l[:1500]})
    if rc == -999:
        st.violate("native-crash", "hang: no progress until the watchdog fired",
                   {"stage": "native", "timeout_s": cfg["native_timeout"], "rows_completed": len(shipped), "output_tail": out.splitlines()[-10:]})
    elif done is None or rc not in (0, 3):
        tail = [rel_repo(l) for l in out.splitlines() if not l.startswith(("SHIPPED", "SAMPLE"))][-40:]
        where = re.search(r"panicked at ([^\n]+)", out)
        running = re.search(r"thread '[A-DW]\d*:([^']+)'", out)
        # the signature holds the kind of crash only (the row and the allocator message vary from run to run)
        what = ("panic at " + where.group(1).strip()) if where else ("killed by signal %d" % -rc if rc < 0 else f"exit code {rc}")
        st.violate("native-crash", rel_repo(what),
                   {"stage": "native", "exit_code": rc, "rows_completed": len(shipped), "last_row_completed": shipped[-1][0] if shipped else None,
                    "row_named_by_panic": running.group(1) if running else None, "output_tail": tail})
    return shipped, samples, done


# --------------------------------------------------------------------------------------------
# (c) Miri
# --------------------------------------------------------------------------------------------

def miri_report(out):
    """extract the first Miri error report (kind, block, first in-repo frame, failing seed)"""
    lines = out.splitlines()
    idx = next((i for i, l in enumerate(lines) if l.startswith("error:") and "aborting due to" not in l and "could not compile" not in l), None)
    if idx is None:
        return None
    head = lines[idx]
    block = lines[idx: idx + 70]
    text = "\n".join(block)
    if "Data race detected" in text:
        kind = "data-race"
    elif "Undefined Behavior" in text:
        kind = "ub"
    elif "deadlock" in head:
        kind = "deadlock"
    elif "unsupported operation" in head:
        kind = "unsupported"
    elif "memory leaked" in head or "leaked" in head:
        kind = "leak"
    else:
        kind = "other"
    frames = re.findall(re.escape(REPO) + r"/(src/[\w/]+\.rs:\d+)", text)
    inside = re.findall(r"inside `([^`]+)`", text)
    seed = re.search(r"(?:FAILING SEED|failing seed)[: ]+(\d+)", out)
    what = re.sub(r"\(\d+\)|alloc\d+|0x[0-9a-f]+|thread `[^`]*`|id \d+", "_", head)[:160]
    return dict(kind=kind, head=head, what=what, block=[rel_repo(l) for l in block], frame=(frames[0] if frames else None),
                inside=(inside[0] if inside else None), seed=(int(seed.group(1)) if seed else None))


def stage_miri(st, crate, prefix, cfg, groups_seeds):
    """groups_seeds: list of (rows, first_seed, n_seeds, procs).  Returns (executions, rows_run)."""
    tdir = prefix + "miri"
    env = {"CARGO_TARGET_DIR": tdir}
    # build once (also builds the Miri sysroot on first use); `--list` does not spawn threads
    rc, out, dt = run(["cargo", "+nightly", "miri", "run", "--offline", "--", "--list"], crate, env, timeout=3600)
    st.counters["miri_build_s"] = round(dt, 1)
    if rc != 0 or "TYPE SelectStatement" not in out:
        viol, roots, culprits, named, rows, lines = classify_build_failure(out)
        if viol:
            st.violate("compile-gate", rel_repo("E0277 Send/Sync (miri build): " + ",".join(roots[:4])), {"stage": "miri-build", "diagnostic_first_lines": [rel_repo(l) for l in lines]})
        else:
            st.inconc("miri", "cargo miri build/list failed: " + rel_repo("\n".join(out.splitlines()[-8:])))
        return 0, []
    jobs = []
    for rows, first, n, procs in groups_seeds:
        procs = max(1, min(procs, n))
        per = (n + procs - 1) // procs
        a = first
        while a < first + n:
            b = min(first + n, a + per)
            jobs.append((rows, a, b))
            a = b
    e = dict(BASE_ENV)
    e.update(env)
    running, results, queue = [], [], list(jobs)
    max_par = 16
    t0 = time.time()
    while queue or running:
        while queue and len(running) < max_par:
            rows, a, b = queue.pop(0)
            ee = dict(e)
            ee["MIRIFLAGS"] = f"-Zmiri-many-seeds={a}..{b}"
            cmd = ["cargo", "+nightly", "miri", "run", "--offline", "--", "--threads", str(cfg["miri_threads"]), "--iters",
                   str(cfg["miri_iters"]), "--lite", "--exact", "--only", ",".join(rows)]
            p = subprocess.Popen(cmd, cwd=crate, env=ee, stdout=subprocess.PIPE, stderr=subprocess.STDOUT, text=True, errors="replace")
            running.append((p, rows, a, b, time.time()))
        still = []
        for item in running:
            p, rows, a, b, ts = item
            if p.poll() is None:
                if time.time() - ts > 3600:
                    p.kill()
                still.append(item)
                continue
            out = clean(p.stdout.read())
            results.append((rows, a, b, p.returncode, out, time.time() - ts))
        running = still
        if running:
            time.sleep(0.2)
    st.counters["miri_run_s"] = round(time.time() - t0, 1)
    executions, rows_run = 0, set()
    for rows, a, b, rc, out, dt in results:
        shipped, mismatches, _, _ = parse_run_output(out)
        dones = len(re.findall(r"^DONE ", out, re.M))
        executions += dones
        rows_run |= {s[0] for s in shipped}
        for l in mismatches[:10]:
            m = re.match(r"MISMATCH (\S+) .*?kind=(\S+)", l)
            st.violate("miri-mismatch", f"{m.group(1) if m else '?'} {m.group(2) if m else '?'}", {"stage": "miri", "line": l[:1500], "seeds": [a, b]})
        if rc == 0 and dones == b - a:
            continue
        rep = miri_report(out)
        if rep and rep["kind"] in ("data-race", "ub"):
            rule = "miri-data-race" if rep["kind"] == "data-race" else "miri-ub"
            sig = f"{rep['frame'] or rep['inside'] or '?'} {rep['what']}"
            st.violate(rule, rel_repo(sig), {"stage": "miri", "rows": rows, "seed_range": [a, b], "failing_seed": rep["seed"],
                                            "first_in_repo_frame": rep["frame"], "report": rep["block"]})
        elif rep:
            st.inconc(f"miri:{','.join(rows)}:{a}..{b}", f"Miri stopped with a non-property report ({rep['kind']}): {rep['head'][:200]}")
        elif not mismatches:
            st.inconc(f"miri:{','.join(rows)}:{a}..{b}", f"exit {rc}, {dones}/{b - a} executions completed: " + rel_repo(" | ".join(out.splitlines()[-4:]))[:400])
    return executions, sorted(rows_run)


# --------------------------------------------------------------------------------------------
# (d) ThreadSanitizer
# --------------------------------------------------------------------------------------------

def tsan_reports(out):
    reps, cur = [], None
    for l in out.splitlines():
        if "WARNING: ThreadSanitizer: data race" in l:
            cur = [l]
            reps.append(cur)
        elif cur is not None:
            cur.append(l)
            if l.startswith("SUMMARY: ThreadSanitizer") or len(cur) > 120:
                cur = None
    return reps


def stage_tsan(st, crate, prefix, cfg):
    tdir = prefix + "tsan"
    env = {"CARGO_TARGET_DIR": tdir, "RUSTFLAGS": "-Zsanitizer=thread"}
    rc, out, dt = run(["cargo", "+nightly", "build", "--offline", "-Zbuild-std", "--target", "x86_64-unknown-linux-gnu", "--profile", "verif"],
                      crate, env, timeout=3600)
    st.counters["tsan_build_s"] = round(dt, 1)
    binary = os.path.join(tdir, "x86_64-unknown-linux-gnu", "verif", "c20")
    if rc != 0 or not os.path.exists(binary):
        viol, roots, culprits, named, rows, lines = classify_build_failure(out)
        if viol:
            st.violate("compile-gate", rel_repo("E0277 Send/Sync (tsan build): " + ",".join(roots[:4])), {"stage": "tsan-build", "diagnostic_first_lines": [rel_repo(l) for l in lines]})
        else:
            st.inconc("tsan", "ThreadSanitizer build failed here, stage skipped: " + rel_repo(" | ".join(out.splitlines()[-6:]))[:600])
        return 0, 0
    runs, renders = 0, 0
    t0 = time.time()
    for i in range(cfg["tsan_runs"]):
        rc, out, dt = run([binary, "--threads", str(cfg["tsan_threads"]), "--iters", str(cfg["tsan_iters"])], ROOT,
                          {"TSAN_OPTIONS": "halt_on_error=0 history_size=4"}, timeout=cfg["tsan_timeout"])
        runs += 1
        shipped, mismatches, _, done = parse_run_output(out)
        if done:
            renders += done[1]
        for l in mismatches[:10]:
            m = re.match(r"MISMATCH (\S+) .*?kind=(\S+)", l)
            st.violate("tsan-mismatch", f"{m.group(1) if m else '?'} {m.group(2) if m else '?'}", {"stage": "tsan", "line": l[:1500]})
        reps = tsan_reports(out)
        for rep in reps:
            text = "\n".join(rep)
            frames = re.findall(r"#\d+ (.+?) (?:" + re.escape(REPO) + r"/)(src/[\w/]+\.rs:\d+)", text)
            top = [f"{fn.strip()[:80]}@{loc}" for fn, loc in frames[:2]]
            if not top:  # no symbolizer: fall back to function names / module offsets of the two access stacks
                top = [re.sub(r"\s+\(c20\+0x[0-9a-f]+\).*", "", x).strip()[:100] for x in re.findall(r"#0 ([^\n]+)", text)[:2]]
            st.violate("tsan-data-race", rel_repo(" | ".join(top) or "data race (unsymbolized)"),
                       {"stage": "tsan", "run": i, "report": [rel_repo(l) for l in rep[:80]]})
        if not reps and (done is None or rc not in (0, 3)):
            st.inconc(f"tsan:run{i}", f"exit {rc} without a data-race report: " + rel_repo(" | ".join(out.splitlines()[-4:]))[:400])
        if rc == -999 and reps:
            # a racing program may corrupt its heap and spin; the reports gathered so far are the verdict
            st.notes.append(f"tsan run {i} was killed after {cfg['tsan_timeout']} s (after reporting {len(reps)} races)")
            break
    st.counters["tsan_run_s"] = round(time.time() - t0, 1)
    return runs, renders


# --------------------------------------------------------------------------------------------
# main
# --------------------------------------------------------------------------------------------

def main():
    argv = sys.argv[1:]
    if len(argv) < 2 or argv[0] != "C20":
        raise SystemExit(__doc__)
    tier = argv[1]
    out_path, seed, replay = None, 1, None
    i = 2
    while i < len(argv):
        if argv[i] == "--out":
            out_path = argv[i + 1]
            i += 2
        elif argv[i] == "--seed":
            seed = int(argv[i + 1])
            i += 2
        elif argv[i] == "--replay":
            replay = argv[i + 1]
            i += 2
        else:
            raise SystemExit(f"unknown argument {argv[i]}\n{__doc__}")
    replay_j = None
    if replay:
        replay_j = json.load(open(replay))
        tier = replay_j.get("tier", tier)
        seed = int(replay_j.get("seed", seed))
    if tier not in TIERS:
        raise SystemExit("tier must be quick|thorough")
    cfg = TIERS[tier]
    st = State(tier, seed, replay is not None)
    t0 = time.time()
    say(f"[C20 ts {tier}] repo={REPO} seed={seed}")

    try:
        crate, prefix = prepare_crate()
    except Exception as ex:  # noqa
        say(f"INCONCLUSIVE: cannot prepare the monitor crate: {ex}")
        sys.exit(2)

    public = scan_public_types()
    only_stage = replay_j["violation"]["detail"].get("stage") if replay_j else None

    shipped, samples, done, miri_exec, miri_rows, tsan_runs, tsan_renders = [], {}, None, 0, [], 0, 0
    listed_rows, gate_only = table_rows_from_source(crate)

    # (a) compile gate
    binary = stage_build(st, crate, prefix)
    if binary:
        rc, out, _ = run([binary, "--list"], ROOT, timeout=120)
        built_rows = [l[5:] for l in out.splitlines() if l.startswith("TYPE ")]
        if sorted(built_rows) != sorted(listed_rows):
            st.harness_errors.append(f"table.rs scan ({len(listed_rows)} rows) disagrees with the binary's --list ({len(built_rows)} rows)")
        say(f"  compile gate passed: {len(listed_rows)} table rows over {len({r.split('/')[0] for r in listed_rows})} types (+{len(gate_only)} gate-only) are Send + Sync  [{st.counters['native_build_s']} s]")
        # (b) native
        if only_stage in (None, "native", "build"):
            shipped, samples, done = stage_native(st, binary, cfg)
            if done:
                say(f"  native: {done[0]} rows shipped, {cfg['native_threads']} threads x {cfg['native_iters']} iters, {done[1]} cross-thread renders equal, {done[3]} mismatches  [{st.counters['native_run_s']} s]")
        # (c) Miri
        if only_stage in (None, "miri"):
            first = (seed % 1000) * 64
            k = cfg["miri_main_groups"]
            plan = [(g, first, cfg["miri_seeds"], cfg["miri_procs_per_group"]) for g in MIRI_GROUPS_QUICK[:k]]
            if cfg["miri_extra_seeds"]:
                plan += [(g, first, cfg["miri_extra_seeds"], 1) for g in MIRI_GROUPS_QUICK[k:] + MIRI_GROUPS_EXTRA]
            if replay_j and only_stage == "miri":
                d = replay_j["violation"]["detail"]
                plan = [(d["rows"], d["seed_range"][0], d["seed_range"][1] - d["seed_range"][0], 1)]
            miri_exec, miri_rows = stage_miri(st, crate, prefix, cfg, plan)
            say(f"  miri: {miri_exec} executions (seeds {first}..{first + cfg['miri_seeds']}) over rows {','.join(miri_rows)}  [build {st.counters.get('miri_build_s')} s, run {st.counters.get('miri_run_s')} s]")
        # (d) TSan
        if cfg["tsan_runs"] and only_stage in (None, "tsan"):
            tsan_runs, tsan_renders = stage_tsan(st, crate, prefix, cfg)
            say(f"  tsan: {tsan_runs} runs, {tsan_renders} renders  [build {st.counters.get('tsan_build_s')} s, run {st.counters.get('tsan_run_s')} s]")

    # ---------------------------------------------------------------- evidence
    types_shipped = sorted({s[0].split("/")[0] for s in shipped})
    covered = {r.split("/")[0] for r in listed_rows} | set(gate_only)
    uncovered = sorted(n for n in public if n not in covered) if listed_rows else sorted(public)
    native_renders = done[1] if done else sum(s[3] for s in shipped)
    awaits = (done[2] if done else 0)
    miri_types = sorted({r.split("/")[0] for r in miri_rows})
    sample_order = ["SelectStatement", "InsertStatement", "UpdateStatement", "DeleteStatement", "WithQuery", "TableCreateStatement",
                    "Condition", "SimpleExpr", "TableRef/SubQuery", "Values"]
    sample_list = [{"type": k, "sql": samples[k][:700]} for k in sample_order if k in samples]
    sample_list += [{"type": k, "sql": v[:300]} for k, v in list(samples.items())[:40] if k not in sample_order][:10]

    findings = load_open_findings()
    new_v, known_hits = [], {}
    for v in st.violations:
        f = next((f for f in findings if f.get("rule") == v["rule"] and f.get("signature") == v["signature"] and f.get("backend", "*") in ("*", v["backend"])), None)
        if f:
            known_hits[f["id"]] = known_hits.get(f["id"], 0) + 1
            say(f"KNOWN-FINDING: property=C20 {f.get('what', f['id'])}")
        else:
            new_v.append(v)

    if new_v and not replay:
        os.makedirs(REPLAYS, exist_ok=True)
    for n, v in enumerate(new_v):
        if replay:
            say(f"VIOLATION property=C20 replay={replay}")
            say(json.dumps(v, indent=1)[:6000])
            continue
        path = os.path.join(REPLAYS, f"C20-ts-{seed}-{v['rule']}-{n}.json")
        json.dump({"property": "C20", "variant": "ts", "tier": tier, "seed": seed, "repo": REPO, "violation": v}, open(path, "w"), indent=1)
        say(f"VIOLATION property=C20 replay={path}")
        say(f"  rule={v['rule']} signature={v['signature']}")

    for e in st.harness_errors:
        say(f"INCONCLUSIVE: {e}")

    counters = {
        "types_shipped_native": len(types_shipped),
        "rows_shipped_native": len(shipped),
        "native_threads": cfg["native_threads"],
        "native_iters": cfg["native_iters"],
        "native_renders": native_renders,
        "miri_seeds": cfg["miri_seeds"],
        "miri_executions": miri_exec,
        "miri_types": len(miri_types),
        "miri_rows": len(miri_rows),
        "tsan_runs": tsan_runs,
        "tsan_renders": tsan_renders,
        "await_points_crossed": awaits,
        "gate_only_types": len(gate_only),
        "public_types_scanned": len(public),
    }
    counters.update({k: v for k, v in st.counters.items()})
    part = {
        "property": "C20", "variant": "ts", "tier": tier, "seed": seed,
        "shards": cfg["native_threads"], "wall_s": round(time.time() - t0, 2),
        "report": {
            "evaluations": native_renders + miri_exec + tsan_renders,
            "distinct_nontrivial": len(types_shipped),
            "counters": counters,
            "observed_sets": {
                "types": {"distinct": len(types_shipped), "items": types_shipped},
                "uncovered_public_types": {"distinct": len(uncovered), "items": uncovered},
                "gate_only_types": {"distinct": len(gate_only), "items": sorted(gate_only)},
                "miri_rows_run": {"distinct": len(miri_rows), "items": miri_rows},
                "table_rows": {"distinct": len(listed_rows), "items": listed_rows},
            },
            "samples": sample_list,
            "inconclusive": st.inconclusive,
            "notes": st.notes,
            "exhaustive_parts": [],
        },
        "violations_new": new_v[:20],
        "violations_new_count": len(new_v),
        "known_hits": [{"id": k, "count": c} for k, c in sorted(known_hits.items())],
        "harness_errors": st.harness_errors,
    }
    if out_path:
        os.makedirs(os.path.dirname(os.path.abspath(out_path)), exist_ok=True)
        json.dump(part, open(out_path, "w"), indent=1, ensure_ascii=False)

    if new_v:
        code = 1
    elif st.harness_errors or (binary and (done is None or miri_exec == 0) and not replay):
        code = 2
        if not st.harness_errors:
            say("INCONCLUSIVE: a stage produced no executions (see INCONCLUSIVE-PART lines)")
    else:
        code = 0
    say(f"[C20 ts {tier} {seed}] evaluations={part['report']['evaluations']} distinct_nontrivial={len(types_shipped)} "
        f"new_violations={len(new_v)} known={len(known_hits)} inconclusive_parts={len(st.inconclusive)} "
        f"uncovered_public_types={len(uncovered)} wall={part['wall_s']}s exit={code}")
    sys.exit(code)


if __name__ == "__main__":
    main()
